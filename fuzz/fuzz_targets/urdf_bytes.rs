#![no_main]
use libfuzzer_sys::fuzz_target;

// The semantic oracle lives in the harness library (opwv::fuzzdec::urdf_bytes); a violation is turned into a crash,
// the crashing input is the replay file (./check <ID> --replay <artifact>).
fuzz_target!(|data: &[u8]| {
    if let Err(v) = opwv::fuzzdec::urdf_bytes(data) {
        panic!("VIOLATION clause: {} detail: {}", v.clause, v.detail);
    }
});
