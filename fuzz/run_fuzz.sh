#!/bin/bash
# fuzz/run_fuzz.sh <target> <seconds> <seed> <summary.json>
# Coverage-guided campaign with libFuzzer on a fresh corpus copy (seed corpus + empty input); the semantic oracle is inside the target.
# Writes a JSON summary; exit 0 = no crash, 1 = crash (artifact path in the summary), 2 = infrastructure problem.
set -u
HERE="$(cd "$(dirname "$0")" && pwd)"
TARGET="$1"; SECS="$2"; SEED="$3"; OUT="$4"
export CARGO_NET_OFFLINE=true
cd "$HERE" || exit 2
[ -f Cargo.lock ] || cp ../harness/Cargo.lock Cargo.lock
WORK="$HERE/corpus-work/$TARGET-$$"
ART="$HERE/artifacts/$TARGET/"
rm -rf "$WORK"; mkdir -p "$WORK" "$ART"
cp "$HERE/seeds/$TARGET/"* "$WORK/" 2>/dev/null
: > "$WORK/empty"
[ "$SEED" = 0 ] && SEED=1
LOG="$WORK.log"
export OPWV_TMP_DIR="/dev/shm/opwv-fuzz-$$"; mkdir -p "$OPWV_TMP_DIR" 2>/dev/null || { export OPWV_TMP_DIR="$WORK-tmp"; mkdir -p "$OPWV_TMP_DIR"; }
JOBS=$(( $(nproc) / 2 )); [ $JOBS -lt 1 ] && JOBS=1
BEFORE="$(ls -1 "$ART" 2>/dev/null | sort)"
cargo +nightly fuzz run -O -s none --fuzz-dir . "$TARGET" "$WORK" -- -max_total_time="$SECS" -seed="$SEED" -len_control=0 -max_len=8192 -print_final_stats=1 -artifact_prefix="$ART" -fork="$JOBS" -ignore_crashes=0 >"$LOG" 2>&1
RC=$?
EXECS=$(grep -aoE "stat::number_of_executed_units: *[0-9]+" "$LOG" | grep -oE "[0-9]+" | awk '{s+=$1} END {print s+0}')
if [ "$EXECS" = 0 ]; then EXECS=$(grep -aoE "#[0-9]+: cov:" "$LOG" | tail -1 | grep -oE "[0-9]+" | head -1); fi
COV=$(grep -aoE "cov: [0-9]+" "$LOG" | tail -1 | grep -oE "[0-9]+")
CORPUS=$(ls -1 "$WORK" | wc -l)
AFTER="$(ls -1 "$ART" 2>/dev/null | sort)"
NEW="$(comm -13 <(echo "$BEFORE") <(echo "$AFTER") | grep -E '^(crash|oom|timeout)-' | head -1)"
CRASH=""
if [ -n "$NEW" ]; then CRASH="$ART$NEW"; fi
if ! grep -aq "Done\|DONE\|stat::" "$LOG" && [ -z "$CRASH" ] && [ "${EXECS:-0}" = 0 ]; then
  echo "fuzz infrastructure problem, see $LOG"; tail -5 "$LOG"
  python3 -c "import json,sys; json.dump({'target':'$TARGET','error':'libFuzzer did not run','log':'$LOG'}, open('$OUT','w'))"
  rm -rf "$OPWV_TMP_DIR"
  exit 2
fi
python3 - "$OUT" "$TARGET" "$SECS" "$SEED" "${EXECS:-0}" "${COV:-0}" "$CORPUS" "$CRASH" "$JOBS" <<'PY'
import json,sys
out,target,secs,seed,execs,cov,corpus,crash,jobs=sys.argv[1:10]
json.dump({"engine":"cargo-fuzz / libFuzzer (-O, no sanitizer, fork mode)","target":target,"max_total_time_s":int(secs),"seed":int(seed),"fork_jobs":int(jobs),
           "executions":int(execs or 0),"coverage_edges":int(cov or 0),"corpus_files_at_end":int(corpus),"crash_artifact":crash or None}, open(out,"w"))
PY
rm -rf "$WORK" "$LOG" "$OPWV_TMP_DIR"
[ -n "$CRASH" ] && exit 1
exit 0
