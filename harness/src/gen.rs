//! Shared generators (proptest strategies). Constructive, with explicit sub-classes for the
//! degenerate regions; finite choices use monotone index mapping so that cases shrink to simple values.

use crate::engine::pick_idx;
use crate::glue::catalogue;
use crate::model::*;
use proptest::prelude::*;
use serde::{Deserialize, Serialize};

pub fn f_special_or(range: std::ops::Range<f64>, specials: &'static [f64], w_special: u32) -> BoxedStrategy<f64> {
    let sp: Vec<f64> = specials.to_vec();
    let n = sp.len();
    prop_oneof![
        w_special => any::<u16>().prop_map(move |i| sp[pick_idx(i, n)]),
        (10 - w_special.min(9)) => range,
    ]
    .boxed()
}

// ---------------------------------------------------------------------------------------------
// Robots

#[derive(Clone, Copy, Debug, PartialEq, Eq)]
pub enum DofChoice {
    Six,
    Five,
    Both,
}

pub fn signs_strategy(dof: i8) -> BoxedStrategy<[i8; 6]> {
    (0u8..64, 0u8..3)
        .prop_map(move |(bits, s6)| {
            let mut s = [1i8; 6];
            for k in 0..6 {
                if bits & (1 << k) != 0 {
                    s[k] = -1;
                }
            }
            if dof == 5 {
                // loaders produce 0 for J6 of a 5-DOF robot; +-1 also allowed
                s[5] = match s6 {
                    0 => 0,
                    1 => 1,
                    _ => -1,
                };
            }
            s
        })
        .boxed()
}

pub fn offset_strategy() -> BoxedStrategy<f64> {
    prop_oneof![
        4 => Just(0.0),
        2 => any::<u16>().prop_map(|i| [PI / 2.0, -PI / 2.0, PI, -PI][pick_idx(i, 4)]),
        4 => -PI..PI,
        1 => -TWO_PI..TWO_PI,
    ]
    .boxed()
}

pub fn offsets_strategy() -> BoxedStrategy<[f64; 6]> {
    prop::array::uniform6(offset_strategy()).boxed()
}

fn dof_strategy(d: DofChoice) -> BoxedStrategy<i8> {
    match d {
        DofChoice::Six => Just(6i8).boxed(),
        DofChoice::Five => Just(5i8).boxed(),
        DofChoice::Both => prop_oneof![3 => Just(6i8), 1 => Just(5i8)].boxed(),
    }
}

/// Catalogue robots (with their own signs/offsets), optionally re-signed / re-offset.
pub fn robot_catalogue(d: DofChoice) -> BoxedStrategy<RobotSpec> {
    let cat: Vec<RobotSpec> = catalogue().into_iter().map(|x| x.1).collect();
    let n = cat.len();
    (any::<u16>(), dof_strategy(d), any::<bool>(), any::<u8>(), offsets_strategy(), any::<u8>())
        .prop_map(move |(i, dof, keep, bits, offs, s6)| {
            let mut r = cat[pick_idx(i, n)];
            if !keep {
                for k in 0..6 {
                    r.signs[k] = if bits & (1 << k) != 0 { -1 } else { 1 };
                }
                r.offsets = offs;
            }
            r.dof = dof;
            if dof == 5 {
                r.signs[5] = [0i8, 1, -1][(s6 % 3) as usize];
            }
            r
        })
        .boxed()
}

/// "Realistic random" robots: positive main lengths, optional b and a2, all sign/offset conventions.
pub fn robot_realistic(d: DofChoice) -> BoxedStrategy<RobotSpec> {
    (
        (-0.2..0.5f64, -0.3..0.3f64, prop_oneof![4 => Just(0.0), 6 => -0.3..0.3f64], 0.0..1.2f64),
        (0.2..1.5f64, 0.2..1.5f64, 0.0..0.4f64),
        offsets_strategy(),
        dof_strategy(d),
    )
        .prop_flat_map(|((a1, a2, b, c1), (c2, c3, c4), offsets, dof)| {
            signs_strategy(dof).prop_map(move |signs| RobotSpec { a1, a2, b, c1, c2, c3, c4, offsets, signs, dof })
        })
        .boxed()
}

/// "Degenerate" robots: zero / negative / tiny / huge lengths.
pub fn robot_degenerate(d: DofChoice) -> BoxedStrategy<RobotSpec> {
    fn len() -> BoxedStrategy<f64> {
        prop_oneof![
            3 => Just(0.0),
            1 => Just(1e-9),
            1 => Just(1e3),
            3 => -1.0..1.0f64,
            2 => 0.05..1.5f64,
        ]
        .boxed()
    }
    (prop::array::uniform7(len()), offsets_strategy(), dof_strategy(d))
        .prop_flat_map(|(l, offsets, dof)| {
            signs_strategy(dof).prop_map(move |signs| RobotSpec { a1: l[0], a2: l[1], b: l[2], c1: l[3], c2: l[4], c3: l[5], c4: l[6], offsets, signs, dof })
        })
        .boxed()
}

/// Negative-length family that still is a proper arm (|c2|,|c3| not tiny).
pub fn robot_negative(d: DofChoice) -> BoxedStrategy<RobotSpec> {
    fn sl(lo: f64, hi: f64) -> BoxedStrategy<f64> {
        (lo..hi, any::<bool>()).prop_map(|(v, n)| if n { -v } else { v }).boxed()
    }
    (
        (sl(0.0, 0.5), sl(0.0, 0.3), prop_oneof![4 => Just(0.0), 6 => -0.3..0.3f64], sl(0.0, 1.2)),
        (sl(0.2, 1.5), sl(0.2, 1.5), sl(0.0, 0.4)),
        offsets_strategy(),
        dof_strategy(d),
    )
        .prop_flat_map(|((a1, a2, b, c1), (c2, c3, c4), offsets, dof)| {
            signs_strategy(dof).prop_map(move |signs| RobotSpec { a1, a2, b, c1, c2, c3, c4, offsets, signs, dof })
        })
        .boxed()
}

/// Proper arms in which some lengths are exactly zero (a1, a2, b, c1, c3, c4 - never c2, and never a2 and c3 together).
pub fn robot_zeroed(d: DofChoice) -> BoxedStrategy<RobotSpec> {
    (prop_oneof![2 => robot_realistic(d), 1 => robot_negative(d)], 1u8..64)
        .prop_map(|(mut r, mask)| {
            if mask & 1 != 0 {
                r.a1 = 0.0;
            }
            if mask & 2 != 0 {
                r.a2 = 0.0;
            }
            if mask & 4 != 0 {
                r.b = 0.0;
            }
            if mask & 8 != 0 {
                r.c1 = 0.0;
            }
            if mask & 16 != 0 && r.a2 != 0.0 {
                r.c3 = 0.0;
            }
            if mask & 32 != 0 {
                r.c4 = 0.0;
            }
            r
        })
        .boxed()
}

/// A robot that differs from `r` in exactly one respect (a calibration / configuration variant of the same arm):
/// the sign of one joint, the offset of one joint, one length, or the declared degrees of freedom.
pub fn robot_variant(r: &RobotSpec, which: u8, amount: f64, allow_dof: bool) -> RobotSpec {
    let mut v = *r;
    let k = ((which / 4) % 6) as usize;
    match which % 4 {
        0 => {
            v.signs[k] = if v.signs[k] == 0 { 1 } else { -v.signs[k] };
        }
        1 => v.offsets[k] += if amount == 0.0 { 0.25 } else { amount },
        2 => {
            let d = if amount == 0.0 { 0.05 } else { amount * 0.2 };
            match (which / 4) % 7 {
                0 => v.a1 += d,
                1 => v.a2 += d,
                2 => v.b += d,
                3 => v.c1 += d,
                4 => v.c2 += d,
                5 => v.c3 += d,
                _ => v.c4 += d,
            }
        }
        _ => {
            if allow_dof {
                v.dof = if v.dof == 6 { 5 } else { 6 };
            } else {
                v.signs[k] = if v.signs[k] == 0 { 1 } else { -v.signs[k] };
            }
        }
    }
    v
}

/// Call-history partner of a robot: none, an unrelated robot, or a one-field variant of the same robot.
pub fn other_robot(d: DofChoice, allow_dof: bool) -> BoxedStrategy<Option<(Option<RobotSpec>, u8, f64)>> {
    let _ = allow_dof;
    prop_oneof![
        3 => Just(None),
        1 => robot_sane(d).prop_map(|r| Some((Some(r), 0u8, 0.0))),
        2 => (any::<u8>(), -1.0..1.0f64).prop_map(|(w, a)| Some((None, w, a))),
    ]
    .boxed()
}

/// Resolve `other_robot` against the robot of the case.
pub fn resolve_other(r: &RobotSpec, o: Option<(Option<RobotSpec>, u8, f64)>, allow_dof: bool) -> Option<RobotSpec> {
    match o {
        None => None,
        Some((Some(x), _, _)) => Some(x),
        Some((None, w, a)) => Some(robot_variant(r, w, a, allow_dof)),
    }
}

/// Mix of well-formed robots (catalogue + realistic).
pub fn robot_sane(d: DofChoice) -> BoxedStrategy<RobotSpec> {
    prop_oneof![3 => robot_catalogue(d), 5 => robot_realistic(d)].boxed()
}

/// Everything.
pub fn robot_any(d: DofChoice) -> BoxedStrategy<RobotSpec> {
    prop_oneof![3 => robot_catalogue(d), 5 => robot_realistic(d), 2 => robot_negative(d), 2 => robot_degenerate(d), 2 => robot_zeroed(d)].boxed()
}

pub fn robot_class(r: &RobotSpec) -> Vec<&'static str> {
    let mut v = Vec::new();
    if r.b != 0.0 {
        v.push("robot:b!=0");
    }
    if r.a2 != 0.0 {
        v.push("robot:a2!=0");
    }
    if r.a1 < 0.0 {
        v.push("robot:a1<0");
    }
    if [r.a1, r.a2, r.c1, r.c2, r.c3, r.c4].iter().any(|x| *x == 0.0) {
        v.push("robot:zero-length");
    }
    if [r.c1, r.c2, r.c3, r.c4].iter().any(|x| *x < 0.0) {
        v.push("robot:negative-c");
    }
    if r.signs.iter().any(|s| *s < 0) {
        v.push("robot:negative-sign");
    }
    if r.offsets.iter().any(|o| *o != 0.0) {
        v.push("robot:offsets");
    }
    if r.dof == 5 {
        v.push("robot:dof5");
    } else {
        v.push("robot:dof6");
    }
    v
}

// ---------------------------------------------------------------------------------------------
// Joint vectors

pub fn joints_uniform() -> BoxedStrategy<[f64; 6]> {
    prop::array::uniform6(-PI..PI).boxed()
}

pub fn joints_wide() -> BoxedStrategy<[f64; 6]> {
    prop::array::uniform6(-4.0 * PI..4.0 * PI).boxed()
}

pub fn joints_2pi() -> BoxedStrategy<[f64; 6]> {
    prop::array::uniform6(-TWO_PI..TWO_PI).boxed()
}

pub fn joints_huge() -> BoxedStrategy<[f64; 6]> {
    prop::array::uniform6(-TWO_PI * 1e3..TWO_PI * 1e3).boxed()
}

pub fn joints_lattice() -> BoxedStrategy<[f64; 6]> {
    prop::array::uniform6((-8i32..=8).prop_map(|k| k as f64 * PI / 2.0)).boxed()
}

/// Generic joints with some of them exactly on a multiple of pi/2 (a flange "straight", an axis "at zero": the round readings an operator jogs to).
pub fn joints_some_lattice() -> BoxedStrategy<[f64; 6]> {
    prop::array::uniform6(prop_oneof![2 => -PI..PI, 1 => (-4i32..=4).prop_map(|k| k as f64 * PI / 2.0)]).boxed()
}

pub fn joints_mixed() -> BoxedStrategy<[f64; 6]> {
    prop_oneof![6 => joints_uniform(), 2 => joints_wide(), 1 => joints_lattice(), 1 => joints_some_lattice()].boxed()
}

// ---------------------------------------------------------------------------------------------
// Rotations / isometries

#[derive(Clone, Copy, Debug, PartialEq, Serialize, Deserialize)]
pub struct IsoSpec {
    pub t: [f64; 3],
    pub axis: [f64; 3],
    pub angle: f64,
}

impl IsoSpec {
    pub fn identity() -> IsoSpec {
        IsoSpec { t: [0.0; 3], axis: [0.0, 0.0, 1.0], angle: 0.0 }
    }
    pub fn iso(&self) -> Iso {
        Iso::new(axis_angle(&self.axis, self.angle), self.t)
    }
    pub fn is_identity(&self) -> bool {
        self.t == [0.0; 3] && (self.angle == 0.0 || norm(&self.axis) == 0.0)
    }
}

pub fn axis_strategy() -> BoxedStrategy<[f64; 3]> {
    prop_oneof![
        2 => any::<u16>().prop_map(|i| [[0.0, 0.0, 1.0], [1.0, 0.0, 0.0], [0.0, 1.0, 0.0]][pick_idx(i, 3)]),
        5 => prop::array::uniform3(-1.0..1.0f64).prop_map(|a| if norm(&a) < 1e-3 { [0.0, 0.0, 1.0] } else { a }),
    ]
    .boxed()
}

pub fn angle_strategy() -> BoxedStrategy<f64> {
    prop_oneof![
        2 => Just(0.0),
        2 => any::<u16>().prop_map(|i| [PI / 2.0, -PI / 2.0, PI, PI / 4.0][pick_idx(i, 4)]),
        6 => -PI..PI,
    ]
    .boxed()
}

pub fn iso_strategy(tmax: f64) -> BoxedStrategy<IsoSpec> {
    (
        prop_oneof![2 => Just([0.0; 3]), 6 => prop::array::uniform3(-tmax..tmax)],
        axis_strategy(),
        angle_strategy(),
    )
        .prop_map(|(t, axis, angle)| IsoSpec { t, axis, angle })
        .boxed()
}

/// Axial isometry: translation along z, rotation about z (for the 5-DOF clauses).
pub fn iso_axial(tmax: f64) -> BoxedStrategy<IsoSpec> {
    (prop_oneof![2 => Just(0.0), 6 => -tmax..tmax], angle_strategy())
        .prop_map(|(z, angle)| IsoSpec { t: [0.0, 0.0, z], axis: [0.0, 0.0, 1.0], angle })
        .boxed()
}

// ---------------------------------------------------------------------------------------------
// Poses

#[derive(Clone, Copy, Debug, PartialEq, Serialize, Deserialize)]
pub enum PoseGen {
    /// model FK of the joint vector (reachable by construction)
    Fk { j: [f64; 6] },
    /// model FK of j with model q5 forced to k*pi (+ delta): wrist singular / near singular
    FkWrist { j: [f64; 6], k: i8, delta: f64 },
    /// model FK of j with the elbow stretched/folded (q3 = -psi3 + k*pi + delta)
    FkElbow { j: [f64; 6], k: i8, delta: f64 },
    /// model FK of j, then shifted so that the wrist centre is at distance rho from the J1 axis
    FkAxis { j: [f64; 6], rho: f64 },
    /// model FK of j, then moved radially outwards by `factor` times the reach
    FkOut { j: [f64; 6], factor: f64 },
    /// arbitrary SE(3) element
    Raw { iso: IsoSpec },
    /// non-finite component: slot 0..2 translation, 3..6 quaternion; kind 0 NaN, 1 +inf, 2 -inf, 3 1e300, 4 subnormal
    NonFinite { iso: IsoSpec, slot: u8, kind: u8 },
}

impl PoseGen {
    pub fn class(&self) -> &'static str {
        match self {
            PoseGen::Fk { .. } => "pose:fk",
            PoseGen::FkWrist { .. } => "pose:wrist-singular",
            PoseGen::FkElbow { .. } => "pose:elbow-stretched",
            PoseGen::FkAxis { .. } => "pose:on-j1-axis",
            PoseGen::FkOut { .. } => "pose:moved-outwards",
            PoseGen::Raw { .. } => "pose:raw-se3",
            PoseGen::NonFinite { .. } => "pose:non-finite",
        }
    }

    /// The joint vector that generated the pose (if it realises it).
    pub fn source_joints(&self, r: &RobotSpec) -> Option<[f64; 6]> {
        match self {
            PoseGen::Fk { j } => Some(*j),
            PoseGen::FkWrist { j, k, delta } => Some(wrist_joints(r, j, *k, *delta)),
            PoseGen::FkElbow { j, k, delta } => Some(elbow_joints(r, j, *k, *delta)),
            _ => None,
        }
    }

    /// Oracle-side pose (None for non-finite).
    pub fn pose(&self, r: &RobotSpec) -> Option<Iso> {
        match self {
            PoseGen::Fk { .. } | PoseGen::FkWrist { .. } | PoseGen::FkElbow { .. } => Some(r.fk(&self.source_joints(r).unwrap())),
            PoseGen::FkAxis { j, rho } => {
                let mut p = r.fk(j);
                let wc = r.wrist_centre(j);
                // move horizontally so that the wrist centre sits at (rho, 0, z)
                p.p[0] += rho - wc[0];
                p.p[1] += -wc[1];
                Some(p)
            }
            PoseGen::FkOut { j, factor } => {
                let mut p = r.fk(j);
                let wc = r.wrist_centre(j);
                let mut dir = [wc[0], wc[1], wc[2] - r.c1];
                let n = norm(&dir);
                if n < 1e-9 {
                    dir = [1.0, 0.0, 0.0];
                } else {
                    dir = scale(&dir, 1.0 / n);
                }
                let s = factor * (r.reach() + 1e-3);
                p.p = add(&p.p, &scale(&dir, s));
                Some(p)
            }
            PoseGen::Raw { iso } => Some(iso.iso()),
            PoseGen::NonFinite { .. } => None,
        }
    }

    /// The pose handed to the library.
    pub fn na(&self, r: &RobotSpec) -> nalgebra::Isometry3<f64> {
        match self {
            PoseGen::NonFinite { iso, slot, kind } => {
                let base = iso.iso();
                let mut t = base.p;
                let mut q = mat_to_quat(&base.r);
                let s = (*slot % 7) as usize;
                // quaternion slots only take NaN / +-inf (a finite non-unit quaternion is not a pose)
                let kind = if s >= 3 { kind % 3 } else { kind % 5 };
                let v = match kind {
                    0 => f64::NAN,
                    1 => f64::INFINITY,
                    2 => f64::NEG_INFINITY,
                    3 => 1e300,
                    _ => 5e-324,
                };
                if s < 3 {
                    t[s] = v;
                } else {
                    q[s - 3] = v;
                }
                crate::glue::to_na_raw(&t, &q)
            }
            _ => crate::glue::to_na(&self.pose(r).unwrap()),
        }
    }
}

pub fn wrist_joints(r: &RobotSpec, j: &[f64; 6], k: i8, delta: f64) -> [f64; 6] {
    let mut q = r.model_angles(j);
    q[4] = k as f64 * PI + delta;
    let mut out = *j;
    if r.signs[4] != 0 {
        out[4] = (q[4] + r.offsets[4]) * r.signs[4] as f64;
    }
    out
}

pub fn elbow_joints(r: &RobotSpec, j: &[f64; 6], k: i8, delta: f64) -> [f64; 6] {
    let mut q = r.model_angles(j);
    let (psi3, _) = r.psi3_k();
    q[2] = -psi3 + k as f64 * PI + delta;
    let mut out = *j;
    if r.signs[2] != 0 {
        out[2] = (q[2] + r.offsets[2]) * r.signs[2] as f64;
    }
    out
}

pub fn small_delta() -> BoxedStrategy<f64> {
    prop_oneof![
        3 => Just(0.0),
        3 => any::<u16>().prop_map(|i| [1e-12, -1e-12, 1e-9, -1e-9, 1e-7, -1e-7, 1e-5, -1e-5, 1e-4, -1e-4, 1e-3, -1e-3][pick_idx(i, 12)]),
        2 => -1e-3..1e-3f64,
    ]
    .boxed()
}

pub fn pose_reachable() -> BoxedStrategy<PoseGen> {
    joints_mixed().prop_map(|j| PoseGen::Fk { j }).boxed()
}

pub fn pose_any() -> BoxedStrategy<PoseGen> {
    prop_oneof![
        10 => joints_mixed().prop_map(|j| PoseGen::Fk { j }),
        3 => (joints_uniform(), -2i8..=2, small_delta()).prop_map(|(j, k, delta)| PoseGen::FkWrist { j, k, delta }),
        2 => (joints_uniform(), -1i8..=1, small_delta()).prop_map(|(j, k, delta)| PoseGen::FkElbow { j, k, delta }),
        2 => (joints_uniform(), prop_oneof![Just(0.0), small_delta(), -0.5..0.5f64]).prop_map(|(j, rho)| PoseGen::FkAxis { j, rho }),
        2 => (joints_uniform(), prop_oneof![Just(1.0), 0.0..3.0f64, Just(1e3)]).prop_map(|(j, factor)| PoseGen::FkOut { j, factor }),
        3 => prop_oneof![iso_strategy(3.0), iso_strategy(1e3)].prop_map(|iso| PoseGen::Raw { iso }),
        1 => (iso_strategy(3.0), 0u8..7, 0u8..5).prop_map(|(iso, slot, kind)| PoseGen::NonFinite { iso, slot, kind }),
    ]
    .boxed()
}

// ---------------------------------------------------------------------------------------------
// Previous vectors

#[derive(Clone, Copy, Debug, PartialEq, Serialize, Deserialize)]
pub enum PrevGen {
    /// the generating joint vector (or zeros if there is none)
    Source,
    Given { j: [f64; 6] },
    /// CONSTRAINT_CENTERED sentinel
    Centered,
}

pub fn prev_any() -> BoxedStrategy<PrevGen> {
    prop_oneof![
        3 => Just(PrevGen::Source),
        4 => joints_2pi().prop_map(|j| PrevGen::Given { j }),
        1 => prop::array::uniform6(-100.0..100.0f64).prop_map(|j| PrevGen::Given { j }),
        1 => Just(PrevGen::Centered),
    ]
    .boxed()
}

pub fn prev_2pi() -> BoxedStrategy<PrevGen> {
    prop_oneof![
        3 => Just(PrevGen::Source),
        5 => joints_2pi().prop_map(|j| PrevGen::Given { j }),
        1 => Just(PrevGen::Centered),
    ]
    .boxed()
}

impl PrevGen {
    pub fn resolve(&self, source: Option<[f64; 6]>) -> [f64; 6] {
        match self {
            PrevGen::Source => source.unwrap_or([0.0; 6]),
            PrevGen::Given { j } => *j,
            PrevGen::Centered => rs_opw_kinematics::kinematic_traits::CONSTRAINT_CENTERED,
        }
    }
}

// ---------------------------------------------------------------------------------------------
// Constraints

#[derive(Clone, Copy, Debug, PartialEq, Serialize, Deserialize)]
pub struct LimitSpec {
    pub from: [f64; 6],
    pub to: [f64; 6],
    pub weight: f64,
}

impl LimitSpec {
    pub fn build(&self) -> rs_opw_kinematics::constraints::Constraints {
        rs_opw_kinematics::constraints::Constraints::new(self.from, self.to, self.weight)
    }
}

pub fn weight_strategy() -> BoxedStrategy<f64> {
    prop_oneof![3 => Just(0.0), 2 => Just(1.0), 3 => 0.0..1.0f64].boxed()
}

/// One joint's (from, to): ordinary, wrapping, >= 2pi span, equal.
pub fn limit_pair(max: f64) -> BoxedStrategy<(f64, f64)> {
    prop_oneof![
        4 => (-max..max, 0.01..TWO_PI * 0.999).prop_map(move |(a, w)| (a, a + w)),          // ordinary
        3 => (-max..max, 0.01..TWO_PI * 0.999).prop_map(move |(a, w)| (a, a + w - TWO_PI)), // wrapping: to < from, same arc start
        1 => (-max..max, 0.01..TWO_PI * 0.999).prop_map(move |(a, w)| (a, a + w - 2.0 * TWO_PI)), // wrapping, written more than a turn below (from - to > 2pi)
        1 => (-max..max, TWO_PI..2.0 * TWO_PI).prop_map(|(a, w)| (a, a + w)),               // span >= 2pi
        1 => (-max..max).prop_map(|a| (a, a)),                                              // equal: unconstrained
    ]
    .boxed()
}

pub fn limits_any() -> BoxedStrategy<LimitSpec> {
    (prop::array::uniform6(limit_pair(PI)), weight_strategy())
        .prop_map(|(p, weight)| {
            let mut from = [0.0; 6];
            let mut to = [0.0; 6];
            for k in 0..6 {
                from[k] = p[k].0;
                to[k] = p[k].1;
            }
            LimitSpec { from, to, weight }
        })
        .boxed()
}

/// Wide, non-filtering limits (every joint may take any value in [-pi, pi] and beyond).
pub fn limits_wide() -> BoxedStrategy<LimitSpec> {
    (prop::array::uniform6(3.2..6.0f64), weight_strategy())
        .prop_map(|(h, weight)| {
            let mut from = [0.0; 6];
            let mut to = [0.0; 6];
            for k in 0..6 {
                from[k] = -h[k];
                to[k] = h[k];
            }
            LimitSpec { from, to, weight }
        })
        .boxed()
}
