//! Byte-level decoders shared by the libFuzzer targets (fuzz/) and by `opwv replay` of raw artifacts.

use crate::engine::*;
use crate::model::*;
use crate::props::c01::{call_entry, check_solution, ENTRY_NAMES};
use crate::viol;

pub struct Cursor<'a> {
    data: &'a [u8],
    pos: usize,
}

impl<'a> Cursor<'a> {
    pub fn new(data: &'a [u8]) -> Cursor<'a> {
        Cursor { data, pos: 0 }
    }
    pub fn u8(&mut self) -> u8 {
        let v = self.data.get(self.pos).cloned().unwrap_or(0);
        self.pos += 1;
        v
    }
    /// raw f64 bit pattern (8 bytes, little endian; zero-padded)
    pub fn f64_bits(&mut self) -> f64 {
        let mut b = [0u8; 8];
        for k in 0..8 {
            b[k] = self.u8();
        }
        f64::from_bits(u64::from_le_bytes(b))
    }
    /// a "tame" f64: selector byte chooses a special value, a scaled small number, or the raw bit pattern
    pub fn f64_mixed(&mut self, scale: f64) -> f64 {
        let sel = self.u8();
        match sel % 8 {
            0 => 0.0,
            1 => [1.0, -1.0, 0.5, PI, -PI, PI / 2.0, 1e-9, 1e3][(sel / 8 % 8) as usize],
            2 | 3 | 4 => {
                let a = self.u8() as f64;
                let b = self.u8() as f64;
                ((a * 256.0 + b) / 65535.0 * 2.0 - 1.0) * scale
            }
            _ => self.f64_bits(),
        }
    }
}

fn tame(x: f64, max: f64) -> f64 {
    if !x.is_finite() {
        0.0
    } else if x.abs() > max {
        max * x.signum()
    } else {
        x
    }
}

/// Decode bytes into (robot, pose, previous, entry, j6) and run the C01 soundness oracle.
pub fn ik_struct(data: &[u8]) -> Res {
    let mut c = Cursor::new(data);
    let flags = c.u8();
    let dof = if flags & 1 != 0 { 5 } else { 6 };
    let sbits = c.u8();
    let mut signs = [1i8; 6];
    for k in 0..6 {
        if sbits & (1 << k) != 0 {
            signs[k] = -1;
        }
    }
    if dof == 5 && flags & 2 != 0 {
        signs[5] = 0;
    }
    let l: [f64; 7] = std::array::from_fn(|_| tame(c.f64_mixed(1.5), 1e6));
    let offsets: [f64; 6] = std::array::from_fn(|_| tame(c.f64_mixed(PI), 1e3));
    let robot = RobotSpec { a1: l[0], a2: l[1], b: l[2], c1: l[3], c2: l[4], c3: l[5], c4: l[6], offsets, signs, dof };
    let entry = c.u8() % 4;
    let j6 = tame(c.f64_mixed(10.0), 1e6);
    let t: [f64; 3] = std::array::from_fn(|_| c.f64_mixed(3.0));
    let q: [f64; 4] = std::array::from_fn(|_| c.f64_mixed(1.0));
    let mut prev: [f64; 6] = std::array::from_fn(|_| tame(c.f64_mixed(7.0), 1e6));
    if flags & 4 != 0 {
        prev = rs_opw_kinematics::kinematic_traits::CONSTRAINT_CENTERED;
    }
    let what = ENTRY_NAMES[entry as usize];
    let k = crate::glue::opw(&robot);
    let qn = (q[0] * q[0] + q[1] * q[1] + q[2] * q[2] + q[3] * q[3]).sqrt();
    let finite = t.iter().chain(q.iter()).all(|x| x.is_finite());
    if finite && !(qn > 1e-6 && qn < 1e6) {
        return Ok(()); // not a rotation
    }
    let (na, want) = if finite {
        let qq = [q[0] / qn, q[1] / qn, q[2] / qn, q[3] / qn];
        let r = quat_to_mat(qq[0], qq[1], qq[2], qq[3]).unwrap();
        let iso = Iso::new(r, t);
        (crate::glue::to_na(&iso), Some(iso))
    } else {
        (crate::glue::to_na_raw(&t, &q), None)
    };
    let sols = call_entry(&k, entry, &na, &prev, j6).map_err(|m| viol!("inverse kinematics never panics", "{} panicked: {} (robot {:?}, pose t={:?} q={:?})", what, m, robot, t, q))?;
    match want {
        None => {
            if !sols.is_empty() {
                return Err(viol!("a non-finite pose yields an empty list", "{} returned {} solutions for t={:?} q={:?}", what, sols.len(), t, q));
            }
        }
        Some(w) => {
            let full = robot.dof == 6 && entry < 2;
            for s in &sols {
                check_solution(&robot, &w, s, full, what)?;
                if entry == 0 {
                    let upto = if robot.dof == 5 { 5 } else { 6 };
                    for j in 0..upto {
                        if !(s[j] >= -PI && s[j] <= PI) {
                            return Err(viol!("plain inverse returns each angle normalised to [-pi, pi]", "joint {} = {}", j + 1, s[j]));
                        }
                    }
                }
            }
        }
    }
    Ok(())
}

pub fn yaml_bytes(data: &[u8]) -> Res {
    crate::props::c19::bytes_no_panic(data).map_err(|m| viol!("malformed YAML yields an error value, never a panic", "panic: {}", m))
}

pub fn urdf_bytes(data: &[u8]) -> Res {
    crate::props::c20::bytes_no_panic(data).map_err(|m| viol!("malformed URDF yields an error value, never a panic", "panic: {}", m))
}
