//! C14 — single-joint offsets offered to search planners are legal and collision-free.

use crate::arc::*;
use crate::engine::*;
use crate::gen::*;
use crate::mesh::MeshSpec;
use rs_opw_kinematics::kinematic_traits::Kinematics;
use crate::model::TWO_PI;
use crate::props::c10::in_pool;
use crate::scene::*;
use crate::{ensure, viol};
use proptest::prelude::*;
use serde::{Deserialize, Serialize};

pub struct C14;

#[derive(Clone, Debug, Serialize, Deserialize)]
pub struct Case {
    pub scene: Scene,
    pub initial: [f64; 6],
    pub from: [f64; 6],
    pub to: [f64; 6],
    /// search window clipped at an edge: 1 = from[k] is exactly the initial value, 2 = to[k] is (the other side still moves)
    #[serde(default)]
    pub pin: [u8; 6],
}

fn key(v: &[f64; 6]) -> [u64; 6] {
    std::array::from_fn(|k| v[k].to_bits())
}

/// One round: the offered set of `robot` against the twelve candidates filtered by oracle A and the robot's own full collision check.
/// Ok(None) = undecided (a candidate inside the guard band); Ok(Some((expected, rejected for collision, rejected by limits))).
fn round(c: &Case, robot: &rs_opw_kinematics::kinematics_with_shape::KinematicsWithShape, pools: &[usize], when: &str) -> Result<Option<(Vec<[f64; 6]>, u64, u64)>, Violation> {
        // expected multiset
        let mut expect: Vec<[f64; 6]> = Vec::new();
        let mut rejected_collision = 0;
        let mut rejected_limits = 0;
        let mut undecided = false;
        for k in 0..6 {
            for target in [&c.from, &c.to] {
                let mut v = c.initial;
                v[k] = target[k];
                if let Some(l) = &c.scene.limits {
                    match arc_member6(&l.from, &l.to, &v, 1e-9) {
                        Verdict::Out => {
                            rejected_limits += 1;
                            continue;
                        }
                        Verdict::Undecided => {
                            undecided = true;
                            continue;
                        }
                        Verdict::In => {}
                    }
                }
                let col = no_panic(|| robot.collides(&v)).map_err(|m| viol!("no panic", "collides: {}", m))?;
                if col {
                    rejected_collision += 1;
                } else {
                    expect.push(v);
                }
            }
        }
        if undecided {
            return Ok(None);
        }
        let mut want: Vec<[u64; 6]> = expect.iter().map(key).collect();
        want.sort();
        // compared as sets: whether a configuration that arises twice (from[k] == to[k], or a value equal to the initial one) is offered once or twice is not part of the statement
        want.dedup();
        let mut first: Option<Vec<[u64; 6]>> = None;
        for &threads in pools {
            let got = in_pool(threads, || no_panic(|| robot.non_colliding_offsets(&c.initial, &c.from, &c.to))).map_err(|m| viol!("no panic", "non_colliding_offsets: {}", m))?;
            let mut g: Vec<[u64; 6]> = got.iter().map(key).collect();
            g.sort();
            g.dedup();
            ensure!(got.len() <= 12, "at most twelve neighbour configurations are offered", "[{} threads] {} offered", threads, got.len());
            if g != want {
                // describe the difference
                let offered_colliding: Vec<&[f64; 6]> = got.iter().filter(|v| robot.collides(v)).collect();
                let withheld: Vec<&[f64; 6]> = expect.iter().filter(|v| !got.iter().any(|x| key(x) == key(v))).collect();
                let details: Vec<String> = offered_colliding.iter().map(|v| format!("{:?} collides: {:?}", v, robot.near(v, &{ let mut s = c.scene.safety.clone(); s.mode = 1; s.build() }).iter().map(crate::props::c10::pair_name).collect::<Vec<_>>())).collect();
                return Err(viol!(
                    "the neighbour configurations offered are exactly the legal single-joint replacements that the full collision check reports free",
                    "{} [{} threads] offered {} expected {}; offered although colliding: {}; free and legal but withheld: {:?}; initial {:?} from {:?} to {:?}",
                    when,
                    threads,
                    got.len(),
                    expect.len(),
                    details.join(" | "),
                    withheld,
                    c.initial,
                    c.from,
                    c.to
                ));
            }
            match &first {
                None => first = Some(g),
                Some(f) => ensure!(*f == g, "the offered set does not depend on the pool size", "differs with {} threads", threads),
            }
        }
    Ok(Some((expect, rejected_collision, rejected_limits)))
}

impl Property for C14 {
    type Case = Case;
    fn id(&self) -> &'static str {
        "C14"
    }
    fn rule(&self) -> String {
        "robots with shape (with/without base and tool, slim box bodies) x collision-free initial vectors (rejected ones counted) x from/to vectors (small offsets around the initial vector, windows clipped at an edge so that from[k] or to[k] is exactly the initial value, and folded targets near +-3.1 rad that drive the forearm/tool into earlier links or the base) \
         x optional joint limits x 0..2 environment boxes x safety tables (modes first/all) x rayon pools 1/3/4/16. Oracle: the twelve candidates filtered by oracle A and by the robot's own full collides(); compared as sets (at most twelve offered). \
         Non-trivial: at least one candidate rejected for collision and at least one offered."
            .into()
    }
    fn assumptions(&self) -> Vec<String> {
        vec![
            "the full collision check of the same robot (collides, decided against brute force by C10) is the reference for 'free'".into(),
            "limits decided by oracle A with a 1e-9 guard band (candidates inside the band are skipped and counted)".into(),
            "no-check mode is not generated: there collides() reports everything free while the planner helper still checks".into(),
        ]
    }
    fn plan(&self, tier: Tier) -> Plan {
        Plan { workers: tier.pick(4, 16), cases_per_worker: tier.pick(1_500, 8_000), max_shrink_iters: 400 }
    }
    fn strategy(&self, _tier: Tier) -> BoxedStrategy<Case> {
        // (values beyond a full turn from the range centre included: limits are meant modulo 2 pi)
        let target = || prop::array::uniform6(prop_oneof![6 => -0.3..0.3f64, 2 => Just(3.1), 2 => Just(-3.1), 4 => -3.1..3.1f64, 1 => -10.0..10.0f64, 1 => (-3.1..3.1f64, any::<bool>()).prop_map(|(x, n)| x + if n { -TWO_PI } else { TWO_PI })]);
        (
            scene_strategy(2),
            prop::array::uniform6(-1.5..1.5f64),
            target(),
            target(),
            prop_oneof![2 => Just(None), 1 => limits_wide().prop_map(Some), 2 => prop::array::uniform6((0.5..3.0f64, 0.5..3.0f64)).prop_map(|w| {
                let mut from = [0.0; 6];
                let mut to = [0.0; 6];
                for k in 0..6 { from[k] = -w[k].0; to[k] = w[k].1; }
                Some(LimitSpec { from, to, weight: 0.0 })
            })],
            any::<[bool; 6]>(),
            prop::array::uniform6(prop_oneof![8 => Just(0u8), 1 => Just(1u8), 1 => Just(2u8)]),
        )
            .prop_map(|(mut scene, initial, f, t, limits, abs, pin)| {
                scene.slim = true;
                scene.limits = limits;
                if scene.safety.mode % 3 == 2 {
                    scene.safety.mode = 1;
                }
                for e in scene.env.iter_mut() {
                    // free at the initial posture by construction; the candidates then move bodies against the boxes
                    if e.attach % 8 != 7 && e.gap_factor < 1.25 {
                        e.gap_factor = 1.25 + e.gap_factor.abs();
                    }
                }
                for sp in scene.safety.special.iter_mut() {
                    if sp.2 > 0.0 {
                        sp.2 = sp.2.min(0.03);
                    }
                }
                for r in scene.link_r.iter_mut() {
                    *r = r.min(0.04);
                }
                scene.safety.to_robot_default = scene.safety.to_robot_default.min(0.03);
                scene.safety.to_environment = scene.safety.to_environment.min(0.08);
                // targets: relative offsets (|x| <= 0.3) are added to the initial value, the others are absolute
                let mut from = [0.0; 6];
                let mut to = [0.0; 6];
                for k in 0..6 {
                    from[k] = if f[k].abs() <= 0.3 && !abs[k] { initial[k] - f[k].abs() } else { f[k] };
                    to[k] = if t[k].abs() <= 0.3 && !abs[k] { initial[k] + t[k].abs() } else { t[k] };
                    match pin[k] {
                        1 => from[k] = initial[k],
                        2 => to[k] = initial[k],
                        _ => {}
                    }
                }
                Case { scene, initial, from, to, pin }
            })
            .boxed()
    }
    fn check(&self, c: &Case, ctx: &mut Ctx) -> Res {
        if c.scene.safety.ambiguous() {
            ctx.exclude("ambiguous safety table");
            return Ok(());
        }
        let mut built = c.scene.build(&c.initial);
        let robot = &built.robot;
        let init_col = no_panic(|| robot.collides(&c.initial)).map_err(|m| viol!("no panic", "collides: {}", m))?;
        if init_col {
            ctx.exclude("initial vector collides");
            return Ok(());
        }
        if let Some(l) = &c.scene.limits {
            if arc_member6(&l.from, &l.to, &c.initial, 1e-9) != Verdict::In {
                ctx.exclude("initial vector outside the limits");
                return Ok(());
            }
        }
        let (expect, rejected_collision, rejected_limits) = match round(c, robot, &[1usize, 3, 4, 16], "")? {
            Some(x) => x,
            None => {
                ctx.exclude("a candidate sits inside the guard band of a limit");
                return Ok(());
            }
        };
        // history: the cell changes between two calls on the same robot (body, environment and safety table are public fields). An obstacle is put
        // where the tool / last link of one offered neighbour is; the offered set must again be what the full check lets through now; then the
        // obstacle is taken away again and the first answer must come back.
        let p0 = robot.forward_with_joint_poses(&c.initial)[5].translation.vector;
        let far = expect.iter().map(|v| (*v, (robot.forward_with_joint_poses(v)[5].translation.vector - p0).norm())).fold(None, |b: Option<([f64; 6], f64)>, x| match b {
            Some(y) if y.1 >= x.1 => Some(y),
            _ => Some(x),
        });
        if let Some((v0, _)) = far {
            let at = robot.forward_with_joint_poses(&v0)[5];
            let m = MeshSpec { lo: [-0.04, -0.04, -0.04], hi: [0.04, 0.04, 0.04], fan: 0 };
            built.robot.body.collision_environment.push(rs_opw_kinematics::collisions::CollisionBody { mesh: m.trimesh(), pose: at.cast::<f32>() });
            // (the helper is documented for a collision-free initial vector: the history is followed only when the initial posture stays free)
            if no_panic(|| built.robot.collides(&c.initial)).map_err(|m| viol!("no panic", "collides: {}", m))? {
                built.robot.body.collision_environment.pop();
                ctx.class("history:not followed (the added obstacle touches the initial posture)");
            } else {
                let second = round(c, &built.robot, &[2usize], "after an obstacle was added to robot.body.collision_environment")?;
                built.robot.body.collision_environment.pop();
                let third = round(c, &built.robot, &[2usize], "after the obstacle was removed again")?;
                if let (Some(s2), Some(s3)) = (second, third) {
                    ctx.class("history:obstacle added and removed between calls");
                    if s2.0.len() < expect.len() {
                        ctx.class("history:the obstacle removes a previously offered neighbour");
                    }
                    ensure!(s3.0.len() == expect.len(), "the offered set is a function of the present cell", "{} offered after the obstacle was removed, {} before it was added", s3.0.len(), expect.len());
                }
            }
        }
        let robot = &built.robot;
        ctx.class_n("candidates:offered", expect.len() as u64);
        ctx.class_n("candidates:rejected-collision", rejected_collision);
        ctx.class_n("candidates:rejected-limits", rejected_limits);
        if (0..6).any(|k| c.from[k].to_bits() == c.initial[k].to_bits() || c.to[k].to_bits() == c.initial[k].to_bits()) {
            ctx.class("window clipped: a from/to value equals the initial one");
        }
        ctx.class(if c.scene.base.is_some() { "base:yes" } else { "base:no" });
        ctx.class(if c.scene.tool.is_some() { "tool:yes" } else { "tool:no" });
        if rejected_collision >= 1 && !expect.is_empty() {
            ctx.nontrivial();
        }
        Ok(())
    }
}
