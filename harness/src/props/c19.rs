//! C19 — parameter YAML round-trips and every documented syntax variant parses.

use crate::engine::*;
use crate::{ensure, viol};
use proptest::prelude::*;
use rs_opw_kinematics::parameters::opw_kinematics::Parameters;
use serde::{Deserialize, Serialize};

pub struct C19;

#[derive(Clone, Debug, Serialize, Deserialize)]
pub struct ParamSpec {
    pub lengths: [f64; 7], // a1 a2 b c1 c2 c3 c4
    pub offsets: [f64; 6], // radians (round trip) or the written number (variant; see OffsetStyle)
    pub signs: [i8; 6],
    pub dof: i8,
}

#[derive(Clone, Debug, Serialize, Deserialize)]
pub struct Syntax {
    /// bit k: write length k as an integer literal when it is integral
    pub int_mask: u8,
    /// per offset: 0 plain radians (real), 1 deg(x), 2 deg( x ) with inner spaces, 3 plain integer literal when integral
    pub offset_style: [u8; 6],
    /// write only five offsets / five signs (when the sixth is 0)
    pub five_offsets: bool,
    pub five_signs: bool,
    /// 0 top level (as documented / printed by to_yaml), 1 nested in the geometric block (fixture), 2 absent
    pub dof_place: u8,
    pub indent: u8,     // 2 or 4
    pub pad: u8,        // extra spaces after the colon
    pub comments: u8,   // bit 0 header comment, bit 1 trailing comments, bit 2 blank lines
    pub top_order: u8,  // permutation index of the top-level blocks
    pub geo_order: u16, // permutation seed of the geometric keys
    pub space_in_lists: bool,
}

#[derive(Clone, Debug, Serialize, Deserialize)]
pub enum Case {
    RoundTrip { p: ParamSpec },
    Variant { p: ParamSpec, s: Syntax },
    Mutated { p: ParamSpec, s: Syntax, edits: Vec<(u16, u8, u8)> },
    Bytes { data: Vec<u8> },
}

fn params_of(p: &ParamSpec) -> Parameters {
    Parameters { a1: p.lengths[0], a2: p.lengths[1], b: p.lengths[2], c1: p.lengths[3], c2: p.lengths[4], c3: p.lengths[5], c4: p.lengths[6], offsets: p.offsets, sign_corrections: p.signs, dof: p.dof }
}

fn num(x: f64, as_int: bool) -> String {
    if as_int && x == x.trunc() && x.abs() < 1e15 {
        format!("{}", x as i64)
    } else {
        let s = format!("{}", x);
        if s.contains('.') || s.contains('e') || s.contains("inf") || s.contains("NaN") {
            s
        } else {
            format!("{}.0", s)
        }
    }
}

/// R-yaml: render a document in the documented format; returns the text and the expected parameters.
pub fn render(p: &ParamSpec, s: &Syntax) -> (String, Parameters) {
    let ind = " ".repeat(if s.indent % 2 == 0 { 2 } else { 4 });
    let pad = " ".repeat(1 + (s.pad % 3) as usize);
    let names = ["a1", "a2", "b", "c1", "c2", "c3", "c4"];
    let trailing = s.comments & 2 != 0;
    let mut geo: Vec<String> = Vec::new();
    for k in 0..7 {
        let mut line = format!("{}{}:{}{}", ind, names[k], pad, num(p.lengths[k], s.int_mask & (1 << k) != 0));
        if trailing && k % 3 == 0 {
            line.push_str(" # metres");
        }
        geo.push(line);
    }
    let dof_place = s.dof_place % 3;
    if dof_place == 1 {
        geo.push(format!("{}dof:{}{}{}", ind, pad, p.dof, if trailing { " # degrees of freedom" } else { "" }));
    }
    // permute the geometric keys
    let mut seed = s.geo_order as usize;
    for i in (1..geo.len()).rev() {
        let j = seed % (i + 1);
        seed /= i + 1;
        geo.swap(i, j);
    }
    let mut expected = params_of(p);
    // offsets
    let n_off = if s.five_offsets && p.offsets[5] == 0.0 { 5 } else { 6 };
    let mut offs = Vec::new();
    for k in 0..n_off {
        let v = p.offsets[k];
        let style = s.offset_style[k] % 4;
        let (txt, val) = match style {
            1 => (format!("deg({})", num(v, false)), v.to_radians()),
            2 => (format!("deg( {} )", num(v, true)), v.to_radians()),
            3 => (num(v, true), v),
            _ => (num(v, false), v),
        };
        offs.push(txt);
        expected.offsets[k] = val;
    }
    if n_off == 5 {
        expected.offsets[5] = 0.0;
    }
    let n_sig = if s.five_signs && p.signs[5] == 0 { 5 } else { 6 };
    let sigs: Vec<String> = (0..n_sig).map(|k| format!("{}", p.signs[k])).collect();
    let sep = if s.space_in_lists { ", " } else { "," };
    let blocks = [
        format!("opw_kinematics_geometric_parameters:\n{}\n", geo.join("\n")),
        format!("opw_kinematics_joint_offsets: [{}]{}\n", offs.join(sep), if trailing { " # radians or deg()" } else { "" }),
        format!("opw_kinematics_joint_sign_corrections: [{}]\n", sigs.join(sep)),
        if dof_place == 0 { format!("dof:{}{}\n", pad, p.dof) } else { String::new() },
    ];
    let perms: [[usize; 4]; 6] = [[0, 1, 2, 3], [3, 0, 1, 2], [1, 0, 2, 3], [2, 1, 0, 3], [0, 3, 2, 1], [1, 2, 3, 0]];
    let perm = perms[(s.top_order % 6) as usize];
    let mut doc = String::new();
    if s.comments & 1 != 0 {
        doc.push_str("#\n# generated robot description\n#\n");
    }
    for (n, &b) in perm.iter().enumerate() {
        doc.push_str(&blocks[b]);
        if s.comments & 4 != 0 && n == 1 {
            doc.push('\n');
        }
    }
    // expected dof / sign rule of the loader
    if dof_place == 2 {
        expected.dof = 6;
    }
    if expected.dof == 5 {
        expected.sign_corrections[5] = 0;
    }
    (doc, expected)
}

pub fn tmp_base() -> std::path::PathBuf {
    // OPWV_TMP_DIR lets a driver (fuzz/run_fuzz.sh) own and remove the scratch area of processes that are killed rather than exiting
    let base = match std::env::var("OPWV_TMP_DIR") {
        Ok(d) => std::path::PathBuf::from(d),
        Err(_) => {
            if std::path::Path::new("/dev/shm").is_dir() {
                std::path::PathBuf::from("/dev/shm")
            } else {
                std::env::temp_dir()
            }
        }
    };
    base.join(format!("opwv-{}", std::process::id()))
}

/// Private scratch file of the calling thread (documents handed to the file-based loaders).
pub fn tmp_file(ext: &str) -> std::path::PathBuf {
    let d = tmp_base();
    let _ = std::fs::create_dir_all(&d);
    let tid = format!("{:?}", std::thread::current().id()).replace(|c: char| !c.is_ascii_digit(), "");
    d.join(format!("doc-{}.{}", tid, ext))
}

pub fn cleanup_tmp() {
    let _ = std::fs::remove_dir_all(tmp_base());
}

fn load_bytes(data: &[u8]) -> Result<Result<Parameters, String>, String> {
    let f = tmp_file("yaml");
    std::fs::write(&f, data).map_err(|e| format!("harness cannot write {}: {}", f.display(), e)).unwrap();
    let r = no_panic(|| Parameters::from_yaml_file(&f).map_err(|e| e.to_string()));
    let _ = std::fs::remove_file(&f);
    r
}

fn compare(got: &Parameters, want: &Parameters, offset_tol: f64, what: &str) -> Res {
    let g = [got.a1, got.a2, got.b, got.c1, got.c2, got.c3, got.c4];
    let w = [want.a1, want.a2, want.b, want.c1, want.c2, want.c3, want.c4];
    let names = ["a1", "a2", "b", "c1", "c2", "c3", "c4"];
    for k in 0..7 {
        ensure!(g[k].to_bits() == w[k].to_bits() || (g[k] == 0.0 && w[k] == 0.0), "the geometry parses back to the same values", "{}: {} = {} expected {}", what, names[k], g[k], w[k]);
    }
    ensure!(got.dof == want.dof, "the degrees of freedom parse back", "{}: dof = {} expected {}", what, got.dof, want.dof);
    ensure!(got.sign_corrections == want.sign_corrections, "the sign corrections parse back", "{}: {:?} expected {:?}", what, got.sign_corrections, want.sign_corrections);
    for k in 0..6 {
        let d = (got.offsets[k] - want.offsets[k]).abs();
        ensure!(d <= offset_tol, "the offsets parse back to the printed precision", "{}: offset {} = {} expected {} (|d| = {:e})", what, k + 1, got.offsets[k], want.offsets[k], d);
    }
    Ok(())
}

fn length_strategy() -> BoxedStrategy<f64> {
    prop_oneof![
        3 => any::<u16>().prop_map(|i| [0.0, 1.0, -1.0, 2.0, -2.0, 10.0][pick_idx(i, 6)]),       // integral values
        3 => (-2000i32..2000).prop_map(|m| m as f64 / 1000.0),                                      // decimals (mm grid)
        2 => -3.0..3.0f64,                                                                          // arbitrary
        1 => any::<u16>().prop_map(|i| [1e-9, -1e-9, 1e3, 123456.789, 1e-300, 1e15][pick_idx(i, 6)]),
    ]
    .boxed()
}

fn param_strategy(grid_offsets: bool) -> BoxedStrategy<ParamSpec> {
    let off = if grid_offsets {
        // degrees values (variants) or radians on the printed 1e-4 degree grid (round trip)
        prop_oneof![3 => Just(0.0), 2 => any::<u16>().prop_map(|i| [90.0, -90.0, 180.0, -180.0, 45.0][pick_idx(i, 5)]), 3 => (-1_800_000i32..1_800_000).prop_map(|m| m as f64 / 10000.0), 2 => (-360i32..=360).prop_map(|d| d as f64), 1 => -180.0..180.0f64].boxed()
    } else {
        prop_oneof![3 => Just(0.0), 3 => (-1_800_000i32..1_800_000).prop_map(|m| (m as f64 / 10000.0).to_radians()), 3 => (-360i32..=360).prop_map(|d| (d as f64).to_radians()), 3 => -3.2..3.2f64].boxed()
    };
    (prop::array::uniform7(length_strategy()), prop::array::uniform6(off), 0u8..64, prop_oneof![3 => Just(6i8), 2 => Just(5i8)], 0u8..3)
        .prop_map(|(lengths, offsets, bits, dof, s6)| {
            let mut signs = [1i8; 6];
            for k in 0..6 {
                if bits & (1 << k) != 0 {
                    signs[k] = -1;
                }
            }
            let _ = s6;
            if dof == 5 {
                signs[5] = 0;
            }
            ParamSpec { lengths, offsets, signs, dof }
        })
        .boxed()
}

fn syntax_strategy() -> BoxedStrategy<Syntax> {
    (
        (any::<u8>(), prop::array::uniform6(0u8..4), any::<bool>(), any::<bool>(), 0u8..3),
        (0u8..2, 0u8..3, 0u8..8, 0u8..6, any::<u16>(), any::<bool>()),
    )
        .prop_map(|((int_mask, offset_style, five_offsets, five_signs, dof_place), (indent, pad, comments, top_order, geo_order, space_in_lists))| Syntax {
            int_mask,
            offset_style,
            five_offsets,
            five_signs,
            dof_place,
            indent,
            pad,
            comments,
            top_order,
            geo_order,
            space_in_lists,
        })
        .boxed()
}

fn apply_edits(doc: &str, edits: &[(u16, u8, u8)]) -> Vec<u8> {
    let mut b = doc.as_bytes().to_vec();
    let tokens: [&[u8]; 12] = [b":", b"[", b"]", b",", b"deg(", b")", b"\n", b"  ", b"- ", b"#", b"dof", b"\t"];
    for (pos, op, byte) in edits {
        if b.is_empty() {
            b.push(*byte);
            continue;
        }
        let i = (*pos as usize) % b.len();
        match op % 6 {
            0 => b[i] = *byte,
            1 => {
                b.remove(i);
            }
            2 => b.insert(i, *byte),
            3 => b.truncate(i),
            4 => {
                let t = tokens[(*byte as usize) % tokens.len()];
                for (k, x) in t.iter().enumerate() {
                    b.insert(i + k, *x);
                }
            }
            _ => {
                // delete a whole line
                let start = b[..i].iter().rposition(|c| *c == b'\n').map(|x| x + 1).unwrap_or(0);
                let end = b[i..].iter().position(|c| *c == b'\n').map(|x| i + x + 1).unwrap_or(b.len());
                b.drain(start..end);
            }
        }
    }
    b
}

/// One fuzz/property step on raw bytes: must return Ok or Err, never panic. Shared with the libFuzzer target.
pub fn bytes_no_panic(data: &[u8]) -> Result<(), String> {
    match load_bytes(data) {
        Ok(_) => Ok(()),
        Err(m) => Err(m),
    }
}

/// Rendered valid documents (seed corpus of the libFuzzer target).
pub fn corpus_strategy() -> BoxedStrategy<String> {
    (param_strategy(true), syntax_strategy()).prop_map(|(p, s)| render(&p, &s).0).boxed()
}

impl Property for C19 {
    type Case = Case;
    fn id(&self) -> &'static str {
        "C19"
    }
    fn rule(&self) -> String {
        "round trips: parameter sets with integral / decimal / arbitrary / extreme finite lengths, offsets on the printed 1e-4 degree grid, whole degrees -360..360 (as the radians of the integer) and arbitrary, signs +-1 (0 on J6), dof 5/6, through to_yaml -> file -> from_yaml_file; \
         variants: grammar-based renderer of the documented format (integer or real literals, plain radians or deg(x) with/without inner spaces, 5 or 6 array entries, dof at top level / nested / absent, 2/4-space indent, comments, blank lines, key order); \
         no-panic: token/byte-level edits of valid documents and arbitrary byte strings (plus the libFuzzer target yaml_bytes in the thorough tier). \
         Non-trivial: round trips with >= 1 integral-valued length or dof 5; variants using >= 2 non-default syntax choices; every mutated/arbitrary document."
            .into()
    }
    fn assumptions(&self) -> Vec<String> {
        vec![
            "round trip: lengths bit-equal, signs equal (J6 = 0 for dof 5 by the loader's documented rule), dof equal, offsets within 0.5e-4 degree + 1e-12 rad".into(),
            "variants: every number is printed by Rust's shortest round-trip formatting, so the expected value is exact; deg(x) means x.to_radians()".into(),
            "documents are written to a private directory under /dev/shm and removed by the same process".into(),
        ]
    }
    fn plan(&self, tier: Tier) -> Plan {
        Plan { workers: tier.pick(4, 16), cases_per_worker: tier.pick(25_000, 200_000), max_shrink_iters: 3000 }
    }
    fn strategy(&self, _tier: Tier) -> BoxedStrategy<Case> {
        prop_oneof![
            3 => param_strategy(false).prop_map(|p| Case::RoundTrip { p }),
            4 => (param_strategy(true), syntax_strategy()).prop_map(|(p, s)| Case::Variant { p, s }),
            4 => (param_strategy(true), syntax_strategy(), prop::collection::vec((any::<u16>(), 0u8..6, any::<u8>()), 1..6)).prop_map(|(p, s, edits)| Case::Mutated { p, s, edits }),
            1 => prop::collection::vec(any::<u8>(), 0..200).prop_map(|data| Case::Bytes { data }),
        ]
        .boxed()
    }
    fn check(&self, c: &Case, ctx: &mut Ctx) -> Res {
        match c {
            Case::RoundTrip { p } => {
                let params = params_of(p);
                let text = no_panic(|| params.to_yaml()).map_err(|m| viol!("to_yaml does not panic", "{}", m))?;
                let got = load_bytes(text.as_bytes()).map_err(|m| viol!("from_yaml_file never panics", "panic: {} on\n{}", m, text))?;
                let got = got.map_err(|e| viol!("any parameter set serialised by the library parses back", "from_yaml_file failed: {} on the library's own output:\n{}", e, text))?;
                let mut want = params;
                if want.dof == 5 {
                    want.sign_corrections[5] = 0;
                }
                compare(&got, &want, 0.5e-4f64.to_radians() + 1e-12, "round trip")?;
                ctx.class("roundtrip");
                let integral = p.lengths.iter().any(|x| *x == x.trunc());
                if integral {
                    ctx.class("roundtrip:integral-length");
                }
                if p.dof == 5 {
                    ctx.class("roundtrip:dof5");
                }
                if integral || p.dof == 5 {
                    ctx.nontrivial();
                }
                Ok(())
            }
            Case::Variant { p, s } => {
                let (doc, want) = render(p, s);
                let got = load_bytes(doc.as_bytes()).map_err(|m| viol!("from_yaml_file never panics", "panic: {} on\n{}", m, doc))?;
                let got = got.map_err(|e| viol!("files in the documented format parse in every documented syntax variant", "from_yaml_file failed: {} on\n{}", e, doc))?;
                compare(&got, &want, 1e-12, &format!("variant\n{}", doc))?;
                let mut choices = 0;
                if (0..7).any(|k| s.int_mask & (1 << k) != 0 && p.lengths[k] == p.lengths[k].trunc()) {
                    choices += 1;
                    ctx.class("variant:integer-literal-length");
                }
                if s.offset_style.iter().any(|x| x % 4 == 1 || x % 4 == 2) {
                    choices += 1;
                    ctx.class("variant:deg()");
                }
                if s.five_offsets && p.offsets[5] == 0.0 || s.five_signs && p.signs[5] == 0 {
                    choices += 1;
                    ctx.class("variant:five-entry-array");
                }
                match s.dof_place % 3 {
                    0 => {
                        choices += 1;
                        ctx.class("variant:dof-top-level");
                    }
                    1 => ctx.class("variant:dof-nested"),
                    _ => ctx.class("variant:dof-absent"),
                }
                if s.indent % 2 == 1 || s.comments != 0 || s.top_order % 6 != 0 {
                    choices += 1;
                }
                if choices >= 2 {
                    ctx.nontrivial();
                }
                Ok(())
            }
            Case::Mutated { p, s, edits } => {
                let (doc, _) = render(p, s);
                let bytes = apply_edits(&doc, edits);
                let r = load_bytes(&bytes).map_err(|m| viol!("malformed files yield an error value, never a panic", "panic: {} on {:?}", m, String::from_utf8_lossy(&bytes)))?;
                ctx.class(if r.is_ok() { "mutated:still-parses" } else { "mutated:error-value" });
                ctx.nontrivial();
                Ok(())
            }
            Case::Bytes { data } => {
                let r = load_bytes(data).map_err(|m| viol!("malformed files yield an error value, never a panic", "panic: {} on {:?}", m, String::from_utf8_lossy(data)))?;
                ctx.class(if r.is_ok() { "bytes:parses" } else { "bytes:error-value" });
                ctx.nontrivial();
                Ok(())
            }
        }
    }
}
