//! C17 — a frame from three point pairs is the rigid motion mapping them.

use crate::engine::*;
use crate::gen::*;
use crate::glue::*;
use crate::model::*;
use crate::props::c01::check_solution;
use crate::props::c04::{check_order, reference};
use crate::{ensure, viol};
use nalgebra::Point3;
use proptest::prelude::*;
use rs_opw_kinematics::frame::{ColinearPoints, Frame, NotIsometry};
use serde::{Deserialize, Serialize};
use std::sync::Arc;

pub struct C17;

#[derive(Clone, Debug, Serialize, Deserialize)]
pub enum Case {
    /// triangle p1, p2 = p1 + s*d1, p3 = p1 + s*(t*d1 + h*d2); images under `motion`; one image point optionally
    /// moved by `delta` metres along direction `dir`
    Triple {
        p1: [f64; 3],
        s: f64,
        d1: [f64; 3],
        d2: [f64; 3],
        t: f64,
        h: f64,
        motion: IsoSpec,
        perturb: Option<(u8, [f64; 3], f64)>,
        /// the motion is the rotation of `motion` about an axis through the first point (a pallet turned about its taught corner): the first image is exactly the first point
        #[serde(default)]
        pivot: bool,
    },
    /// exactly collinear points from small integers; source=true: collinear sources with congruent targets;
    /// source=false: collinear targets with a thin source triangle (height `thin` metres)
    Collinear { source: bool, base: [i8; 3], dir: [i8; 3], k: [i8; 3], motion: IsoSpec, thin: f64 },
    Translation { p: [f64; 3], q: [f64; 3] },
    Transformed {
        robot: RobotSpec,
        frame: IsoSpec,
        j: [f64; 6],
        prev: PrevGen,
        /// call history: the same joints were first replayed on a frame around this other robot (result ignored)
        #[serde(default)]
        other: Option<RobotSpec>,
    },
}

fn pt(v: &V3) -> Point3<f64> {
    Point3::new(v[0], v[1], v[2])
}

fn unit_or(d: &V3, alt: V3) -> V3 {
    let n = norm(d);
    if n < 1e-6 {
        alt
    } else {
        scale(d, 1.0 / n)
    }
}

impl Property for C17 {
    type Case = Case;
    fn id(&self) -> &'static str {
        "C17"
    }
    fn rule(&self) -> String {
        "point triples at scales 1e-2..1e2 m, up to 1e3 m from the origin, triangle height/base from 1 down to 1e-6 (one in four with an isosceles corner at the first point), images under random rigid motions (15 % of them rotations about the first point, which then is its own image bit for bit); one image point perturbed by |delta| in {0, 1 mm, 4.9 mm, 5.1 mm, 2 cm, random} \
         (the oracle recomputes the three mutual-distance differences; 1e-9 guard around 5 mm); exactly collinear sources / targets from small-integer coordinates; Frame::translation; forward_transformed over robots x frames x joints x previous (one case in three after the same joints were replayed on a frame around another robot). \
         Non-trivial: an unperturbed triple whose conditioning bound is below 1e-3 (frame compared with the generating motion), a decided perturbed triple, a collinear triple, or a forward_transformed call with >= 1 answer."
            .into()
    }
    fn assumptions(&self) -> Vec<String> {
        vec![
            "conditioning bound for an unperturbed triple: 1e-13 * (1 + |p|max/scale) / sin(theta_min) rad for the rotation (measured worst ratio recorded under notes)".into(),
            "rejection is decided by the statement: some mutual distance differs by more than 5 mm -> NotIsometry; exactly collinear sources/targets -> ColinearPoints with the matching flag".into(),
        ]
    }
    fn plan(&self, tier: Tier) -> Plan {
        Plan { workers: tier.pick(4, 16), cases_per_worker: tier.pick(125_000, 1_500_000), max_shrink_iters: 3000 }
    }
    fn selftest(&self) -> Result<serde_json::Value, String> {
        crate::selftest::model_vs_recorded()
    }
    fn strategy(&self, _tier: Tier) -> BoxedStrategy<Case> {
        let vec3 = |m: f64| prop::array::uniform3(-m..m);
        let delta = prop_oneof![
            2 => any::<u16>().prop_map(|i| [0.0, 0.001, -0.001, 0.0049, -0.0049, 0.0051, -0.0051, 0.02, -0.02][pick_idx(i, 9)]),
            1 => -0.03..0.03f64,
        ];
        let triple = (
            prop_oneof![2 => Just([0.0; 3]), 3 => vec3(2.0), 1 => vec3(1e3)],
            prop_oneof![Just(1.0), 0.01..1.0f64, 1.0..100.0f64],
            vec3(1.0),
            vec3(1.0),
            // (t, h): the third point in the basis (d1, d2); one case in four has an isosceles corner at the first point (both edges leaving it equally long,
            // e.g. unit edges along two axes), where only rounding decides which edge is the longer one
            prop_oneof![
                6 => (-1.0..2.0f64, prop_oneof![4 => 0.1..1.0f64, 1 => Just(1e-3), 1 => Just(1e-6)]),
                1 => Just((0.0, 1.0)),
                1 => (0.15..2.9f64).prop_map(|phi| (phi.cos(), phi.sin())),
            ],
            iso_strategy(3.0),
            prop_oneof![3 => Just(None), 4 => (0u8..3, vec3(1.0), delta).prop_map(Some)],
            prop::bool::weighted(0.15),
        )
            .prop_map(|(p1, s, d1, d2, (t, h), motion, perturb, pivot)| Case::Triple { p1, s, d1, d2, t, h, motion, perturb, pivot });
        let small = || prop::array::uniform3(-5i8..=5);
        let coll = (any::<bool>(), small(), small(), small(), iso_strategy(3.0), prop_oneof![Just(1e-3), Just(1e-4), 1e-5..2e-3f64])
            .prop_map(|(source, base, dir, k, motion, thin)| Case::Collinear { source, base, dir, k, motion, thin });
        let tr = (vec3(10.0), vec3(10.0)).prop_map(|(p, q)| Case::Translation { p, q });
        let ft = (robot_sane(DofChoice::Six), prop_oneof![iso_strategy(0.3), iso_strategy(2.0)], joints_uniform(), prev_2pi(), other_robot(DofChoice::Six, false))
            .prop_map(|(robot, frame, j, prev, other)| {
                let other = resolve_other(&robot, other, false);
                Case::Transformed { robot, frame, j, prev, other }
            });
        prop_oneof![6 => triple, 2 => coll, 1 => tr, 3 => ft].boxed()
    }
    fn check(&self, c: &Case, ctx: &mut Ctx) -> Res {
        match c {
            Case::Triple { p1, s, d1, d2, t, h, motion, perturb, pivot } => {
                let u = unit_or(d1, [1.0, 0.0, 0.0]);
                // v: unit vector perpendicular to u
                let mut v = sub(d2, &scale(&u, dot(d2, &u)));
                if norm(&v) < 1e-3 {
                    v = cross(&u, &[0.3, -0.5, 0.8]);
                    if norm(&v) < 1e-3 {
                        v = cross(&u, &[1.0, 0.0, 0.0]);
                    }
                }
                let v = scale(&v, 1.0 / norm(&v));
                let p = [*p1, add(p1, &scale(&u, *s)), add(p1, &add(&scale(&u, s * t), &scale(&v, s * h)))];
                let mut m = motion.iso();
                let mut q = [m.apply(&p[0]), m.apply(&p[1]), m.apply(&p[2])];
                if *pivot {
                    // rotation about the first point: q_i = p1 + R (p_i - p1); the first image is the first point itself, bit for bit
                    let rot = Iso { r: m.r, p: [0.0; 3] };
                    m = Iso { r: m.r, p: sub(p1, &rot.apply(p1)) };
                    q = [*p1, add(p1, &rot.apply(&sub(&p[1], p1))), add(p1, &rot.apply(&sub(&p[2], p1)))];
                    ctx.class("triple:motion that leaves the first point exactly in place");
                }
                if let Some((which, dir, delta)) = perturb {
                    let w = (*which % 3) as usize;
                    let d = unit_or(dir, [0.0, 0.0, 1.0]);
                    q[w] = add(&q[w], &scale(&d, *delta));
                }
                if (dist(&p[0], &p[1]) - dist(&p[0], &p[2])).abs() <= 1e-12 * (1.0 + *s) {
                    ctx.class("triple:isosceles corner at the first point");
                }
                let res = no_panic(|| Frame::frame(pt(&p[0]), pt(&p[1]), pt(&p[2]), pt(&q[0]), pt(&q[1]), pt(&q[2]))).map_err(|e| viol!("no panic", "Frame::frame: {}", e))?;
                // oracle: mutual distance differences
                let dd = [
                    (dist(&p[0], &p[1]) - dist(&q[0], &q[1])).abs(),
                    (dist(&p[0], &p[2]) - dist(&q[0], &q[2])).abs(),
                    (dist(&p[1], &p[2]) - dist(&q[1], &q[2])).abs(),
                ];
                let worst = dd.iter().cloned().fold(0.0, f64::max);
                let off = p.iter().chain(q.iter()).map(|x| norm(x)).fold(0.0, f64::max);
                let guard = 1e-9 * (1.0 + off);
                if worst > 0.005 + guard {
                    ctx.class("triple:expected NotIsometry");
                    match res {
                        Ok(f) => return Err(viol!("point triples whose mutual distances differ by more than 5 mm are rejected", "distance differences {:?} but Frame::frame returned Ok({:?})", dd, f)),
                        Err(e) => ensure!(e.downcast_ref::<NotIsometry>().is_some(), "rejected with the corresponding error (NotIsometry)", "got error: {}", e),
                    }
                    ctx.nontrivial();
                    return Ok(());
                }
                if worst > 0.005 - guard {
                    ctx.exclude("triple: distance difference within the guard band of 5 mm");
                    return Ok(());
                }
                // must be accepted (the triangle is not exactly collinear by construction)
                let f = match res {
                    Ok(f) => f,
                    Err(e) => {
                        // a perturbation may make the images exactly collinear only with probability zero
                        return Err(viol!("three non-collinear points and their images (distances within 5 mm) give a frame", "Frame::frame failed: {} (distance differences {:?})", e, dd));
                    }
                };
                let fi = from_na(&f).ok_or_else(|| viol!("the frame is finite", "{:?}", f))?;
                ensure!((quat_norm(&f) - 1.0).abs() < 1e-9, "the constructed frame is a proper rigid transform (unit rotation)", "quaternion norm - 1 = {:e}", quat_norm(&f) - 1.0);
                if perturb.map(|x| x.2 == 0.0).unwrap_or(true) {
                    // (For images that are only congruent within the 5 mm tolerance the statement does not say which point, if any,
                    // is mapped exactly: anchoring at the first pair or at the centroids are both rigid motions "of" the triple.)
                    // exact images: F equals the generating motion and maps each point to its image (to within the triangle's conditioning)
                    let e12 = sub(&p[1], &p[0]);
                    let e13 = sub(&p[2], &p[0]);
                    let e23 = sub(&p[2], &p[1]);
                    let a1 = vec_angle(&e12, &e13).abs();
                    let a2 = vec_angle(&scale(&e12, -1.0), &e23).abs();
                    let a3 = PI - a1 - a2;
                    let sin_min = a1.sin().min(a2.sin()).min(a3.sin()).abs();
                    let lmin = norm(&e12).min(norm(&e13)).min(norm(&e23));
                    let kappa = (1.0 + off / lmin.max(1e-300)) / sin_min.max(1e-300);
                    let bound_rot = 1e-13 * kappa + 1e-12;
                    if !(bound_rot < 1e-3) {
                        ctx.exclude("triple: ill-conditioned (bound above 1e-3 rad), only rigidity asserted");
                        return Ok(());
                    }
                    let da = rot_angle(&fi.r, &m.r);
                    ensure!(da <= bound_rot, "the frame equals the rigid motion that maps the points (rotation)", "angle between frame and motion {:e} rad, bound {:e} (sin theta_min {:e}, offset/scale {:e})", da, bound_rot, sin_min, off / lmin);
                    let lmax = norm(&e12).max(norm(&e13)).max(norm(&e23));
                    let bound_p = bound_rot * (lmax + off) * 2.0 + 1e-9 * (1.0 + off);
                    for i in 0..3 {
                        let e = dist(&fi.apply(&p[i]), &q[i]);
                        ensure!(e <= bound_p, "the frame maps each point to its image", "point {}: |F p - q| = {:e} bound {:e}", i + 1, e, bound_p);
                    }
                    let et = dist(&fi.p, &m.p);
                    ensure!(et <= bound_p, "the frame equals the rigid motion that maps the points (translation)", "|dt| = {:e} bound {:e}", et, bound_p);
                    ensure!((det(&fi.r) - 1.0).abs() < 1e-9, "proper rotation (det = +1)", "det = {}", det(&fi.r));
                    ctx.class(if sin_min < 1e-2 { "triple:exact, nearly collinear" } else { "triple:exact, well conditioned" });
                    let ratio = da / bound_rot;
                    let e = ctx.notes.entry("worst_rotation_error_over_bound".into()).or_insert(serde_json::json!(0.0));
                    if ratio > e.as_f64().unwrap_or(0.0) {
                        *e = serde_json::json!(ratio);
                    }
                } else {
                    ctx.class("triple:perturbed below 5 mm, accepted");
                }
                ctx.nontrivial();
                Ok(())
            }
            Case::Collinear { source, base, dir, k, motion, thin } => {
                let b = [base[0] as f64, base[1] as f64, base[2] as f64];
                let mut d = [dir[0] as f64, dir[1] as f64, dir[2] as f64];
                if d == [0.0; 3] {
                    d = [1.0, 0.0, 0.0];
                }
                let mut kk = [k[0] as f64, k[1] as f64, k[2] as f64];
                if kk[0] == kk[1] {
                    kk[1] = kk[0] + 1.0;
                }
                if kk[2] == kk[0] || kk[2] == kk[1] {
                    kk[2] = kk[0].max(kk[1]) + 2.0;
                }
                // exactly collinear (integer arithmetic in f64 is exact here)
                let line = [add(&b, &scale(&d, kk[0])), add(&b, &scale(&d, kk[1])), add(&b, &scale(&d, kk[2]))];
                let m = motion.iso();
                if *source {
                    // collinear sources, congruent targets
                    let q = [m.apply(&line[0]), m.apply(&line[1]), m.apply(&line[2])];
                    let res = no_panic(|| Frame::frame(pt(&line[0]), pt(&line[1]), pt(&line[2]), pt(&q[0]), pt(&q[1]), pt(&q[2]))).map_err(|e| viol!("no panic", "{}", e))?;
                    match res {
                        Ok(f) => return Err(viol!("collinear sources are rejected", "Frame::frame returned Ok({:?}) for sources {:?}", f, line)),
                        Err(e) => match e.downcast_ref::<ColinearPoints>() {
                            Some(cp) => {
                                // the images of collinear points are collinear as well (up to rounding): when the library finds the target triple
                                // collinear too, either flag names a true reason and is "the corresponding error"
                                let t12 = sub(&q[1], &q[0]);
                                let t13 = sub(&q[2], &q[0]);
                                let target_collinear_too = norm(&cross(&t12, &t13)) <= 1e-9 * (1.0 + norm(&t12) * norm(&t13));
                                ensure!(cp.source || target_collinear_too, "rejected with the corresponding error (ColinearPoints, source)", "flag source={}", cp.source);
                                if !cp.source {
                                    ctx.class("collinear:source and target both collinear, the target was named");
                                }
                            }
                            None => return Err(viol!("rejected with the corresponding error (ColinearPoints, source)", "got: {}", e)),
                        },
                    }
                    ctx.class("collinear:source");
                } else {
                    // collinear targets; the source is a thin triangle with (almost) the same side lengths
                    let dn = scale(&d, 1.0 / norm(&d));
                    let mut perp = cross(&dn, &[0.0, 0.0, 1.0]);
                    if norm(&perp) < 1e-6 {
                        perp = cross(&dn, &[1.0, 0.0, 0.0]);
                    }
                    let perp = scale(&perp, 1.0 / norm(&perp));
                    let src_line = [line[0], line[1], add(&line[2], &scale(&perp, *thin))];
                    let p = [m.apply(&src_line[0]), m.apply(&src_line[1]), m.apply(&src_line[2])];
                    // side length differences stay far below 5 mm: sqrt(L^2 + thin^2) - L <= thin
                    let res = no_panic(|| Frame::frame(pt(&p[0]), pt(&p[1]), pt(&p[2]), pt(&line[0]), pt(&line[1]), pt(&line[2]))).map_err(|e| viol!("no panic", "{}", e))?;
                    // the moved source must not be exactly collinear (it has height `thin`)
                    match res {
                        Ok(f) => return Err(viol!("collinear targets are rejected", "Frame::frame returned Ok({:?}) for targets {:?}", f, line)),
                        Err(e) => match e.downcast_ref::<ColinearPoints>() {
                            Some(cp) => ensure!(!cp.source, "rejected with the corresponding error (ColinearPoints, target)", "flag source={}", cp.source),
                            None => return Err(viol!("rejected with the corresponding error (ColinearPoints, target)", "got: {}", e)),
                        },
                    }
                    ctx.class("collinear:target");
                }
                ctx.nontrivial();
                Ok(())
            }
            Case::Translation { p, q } => {
                let f = no_panic(|| Frame::translation(pt(p), pt(q))).map_err(|e| viol!("no panic", "{}", e))?;
                let fi = from_na(&f).ok_or_else(|| viol!("finite", "{:?}", f))?;
                ensure!(rot_angle(&fi.r, &ident()) == 0.0, "Frame::translation has no rotation", "{:?}", fi.r);
                ensure!(dist(&fi.p, &sub(q, p)) <= 1e-12 * (1.0 + norm(p) + norm(q)), "Frame::translation is the pure shift q - p", "{:?} vs {:?}", fi.p, sub(q, p));
                ctx.class("translation");
                ctx.nontrivial();
                Ok(())
            }
            Case::Transformed { robot: r, frame, j, prev, other } => {
                let fr = Frame { robot: Arc::new(opw(r)), frame: to_na(&frame.iso()) };
                let p = prev.resolve(Some(*j));
                if let Some(o) = other {
                    let fo = Frame { robot: Arc::new(opw(o)), frame: to_na(&frame.iso()) };
                    let _ = no_panic(|| fo.forward_transformed(j, &p)).map_err(|e| viol!("no panic", "forward_transformed (other robot): {}", e))?;
                    ctx.class("transformed:history: the same joints replayed on another robot's frame first");
                }
                let (sols, pose) = no_panic(|| fr.forward_transformed(j, &p)).map_err(|e| viol!("no panic", "forward_transformed: {}", e))?;
                let want = frame.iso().mul(&r.fk(j));
                let got = from_na(&pose).ok_or_else(|| viol!("finite", "{:?}", pose))?;
                let size = r.reach() + norm(&frame.t);
                ensure!(dist(&got.p, &want.p) <= 1e-9 * (1.0 + size) && rot_angle(&got.r, &want.r) <= 1e-9, "forward_transformed returns the frame-moved tool pose", "dp={:e} dang={:e}", dist(&got.p, &want.p), rot_angle(&got.r, &want.r));
                for s in &sols {
                    check_solution(r, &want, s, true, "forward_transformed")?;
                }
                let rf = reference(&p, &None);
                check_order(&sols, &rf, &None, "forward_transformed")?;
                ctx.class(&format!("transformed:answers:{}", sols.len().min(9)));
                if !sols.is_empty() {
                    ctx.nontrivial();
                }
                Ok(())
            }
        }
    }
}
