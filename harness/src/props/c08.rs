//! C08 — a constrained solver returns exactly the compliant solutions.

use crate::arc::*;
use crate::engine::*;
use crate::gen::*;
use crate::glue::*;
use crate::model::*;
use crate::props::c01::{call_entry, ENTRY_NAMES};
use crate::stack::*;
use crate::{ensure, viol};
use proptest::prelude::*;
use serde::{Deserialize, Serialize};
use std::sync::Arc;

pub struct C08;

#[derive(Clone, Debug, Serialize, Deserialize)]
pub enum LimitGen {
    Any(LimitSpec),
    /// window [j - lo, j + hi] around the source joints; `shift` moves one joint's window away so that it excludes the source
    Around { lo: [f64; 6], hi: [f64; 6], shift: Option<(u8, f64)>, free: u8, weight: f64 },
}

impl LimitGen {
    pub fn resolve(&self, src: &[f64; 6]) -> LimitSpec {
        match self {
            LimitGen::Any(l) => *l,
            LimitGen::Around { lo, hi, shift, free, weight } => {
                let mut from = [0.0; 6];
                let mut to = [0.0; 6];
                for k in 0..6 {
                    from[k] = src[k] - lo[k];
                    to[k] = src[k] + hi[k];
                    if free & (1 << k) != 0 {
                        // from == to: unconstrained joint
                        to[k] = from[k];
                    }
                }
                if let Some((k, d)) = shift {
                    let k = (*k % 6) as usize;
                    from[k] += d;
                    to[k] += d;
                }
                LimitSpec { from, to, weight: *weight }
            }
        }
    }
}

#[derive(Clone, Debug, Serialize, Deserialize)]
pub struct Case {
    pub robot: RobotSpec,
    pub pose: PoseGen,
    pub prev: PrevGen,
    pub entry: u8,
    pub j6: f64,
    pub limits: LimitGen,
    pub layers: Vec<Layer>,
    /// 1: the constraint object was built with other limits (sharing one bound per joint with the final ones) and moved there by update_range
    #[serde(default)]
    pub history: u8,
}

fn same_limits(a: &rs_opw_kinematics::constraints::Constraints, b: &rs_opw_kinematics::constraints::Constraints) -> bool {
    a.from == b.from && a.to == b.to && a.sorting_weight == b.sorting_weight && a.centers == b.centers && a.tolerances == b.tolerances
}

impl Property for C08 {
    type Case = Case;
    fn id(&self) -> &'static str {
        "C08"
    }
    fn rule(&self) -> String {
        "constraint sets (ordinary / wrapping / span>=2pi / from==to per joint; windows around a known solution, windows shifted to exclude it, unconstrained joints) x weights x robots dof 5/6 x poses (reachable, exactly and nearly wrist-singular) \
         x previous x four entry points x wrapper stacks of depth 0..3 over {Tool, Base, Frame, Parallelogram}. Differential oracle: the same stack without limits. Non-trivial: the unconstrained answer has >= 1 admitted and >= 1 rejected element (the filter decides something)."
            .into()
    }
    fn assumptions(&self) -> Vec<String> {
        vec![
            "oracle A (arc membership, 1e-9 guard band) decides admission; answers within the band are skipped and counted".into(),
            "through a Parallelogram the limits are evaluated on the de-coupled vector (what the wrapped solver produced)".into(),
            "completeness is skipped (counted) for CONSTRAINT_CENTERED on wrist-singular poses, where the recovered candidate legitimately depends on the reference vector".into(),
        ]
    }
    fn plan(&self, tier: Tier) -> Plan {
        Plan { workers: tier.pick(4, 16), cases_per_worker: tier.pick(75_000, 500_000), max_shrink_iters: 3000 }
    }
    fn selftest(&self) -> Result<serde_json::Value, String> {
        crate::selftest::arc_selftest()
    }
    fn strategy(&self, _tier: Tier) -> BoxedStrategy<Case> {
        let around = (
            prop::array::uniform6(prop_oneof![1 => 0.001..0.05f64, 3 => 0.05..2.0f64]),
            prop::array::uniform6(prop_oneof![1 => 0.001..0.05f64, 3 => 0.05..2.0f64]),
            prop_oneof![2 => Just(None), 1 => (0u8..6, prop_oneof![2.5..3.5f64, -3.5..-2.5f64]).prop_map(Some)],
            prop_oneof![3 => Just(0u8), 1 => 0u8..64],
            weight_strategy(),
        )
            .prop_map(|(lo, hi, shift, free, weight)| LimitGen::Around { lo, hi, shift, free, weight });
        (
            prop_oneof![4 => robot_sane(DofChoice::Six), 2 => robot_sane(DofChoice::Five), 1 => robot_negative(DofChoice::Six)],
            prop_oneof![
                8 => joints_uniform().prop_map(|j| PoseGen::Fk { j }),
                2 => joints_2pi().prop_map(|j| PoseGen::Fk { j }),
                3 => (joints_uniform(), -1i8..=1, small_delta()).prop_map(|(j, k, delta)| PoseGen::FkWrist { j, k, delta }),
            ],
            prev_2pi(),
            0u8..4,
            -3.0..3.0f64,
            prop_oneof![3 => limits_any().prop_map(LimitGen::Any), 4 => around],
            prop_oneof![3 => Just(vec![]), 4 => prop::collection::vec(any_layer(1.0), 1..4)],
            0u8..3,
        )
            .prop_map(|(robot, pose, prev, entry, j6, limits, layers, history)| Case { robot, pose, prev, entry, j6, limits, layers, history })
            .boxed()
    }
    fn check(&self, c: &Case, ctx: &mut Ctx) -> Res {
        let r = &c.robot;
        let entry = c.entry % 4;
        let what = ENTRY_NAMES[entry as usize];
        let src = c.pose.source_joints(r).unwrap_or([0.0; 6]);
        // the source joints are inner (de-coupled) joints: the limits live on the wrapped robot
        let lim = c.limits.resolve(&src);
        ctx.class(&format!("dof{}:{}", r.dof, what));
        ctx.class(&format!("stack-depth:{}", c.layers.len()));
        if c.layers.iter().any(|l| matches!(l, Layer::Para { .. })) {
            ctx.class("stack:with-parallelogram");
        }
        ctx.class(match &c.limits {
            LimitGen::Any(_) => "limits:any",
            LimitGen::Around { shift: None, .. } => "limits:window-around-source",
            LimitGen::Around { shift: Some(_), .. } => "limits:window-excluding-source",
        });
        let cons = if c.history % 3 == 1 {
            // even joints keep their lower limit, odd joints their upper limit; the other bound moves
            let f0: [f64; 6] = std::array::from_fn(|k| if k % 2 == 0 { lim.from[k] } else { lim.from[k] - 0.37 });
            let t0: [f64; 6] = std::array::from_fn(|k| if k % 2 == 1 { lim.to[k] } else { lim.to[k] + 0.41 });
            let mut x = rs_opw_kinematics::constraints::Constraints::new(f0, t0, lim.weight);
            x.update_range(lim.from, lim.to);
            ctx.class("limits reached through update_range (one bound per joint unchanged)");
            x
        } else if c.history % 3 == 2 {
            // the limits are given in degrees (what from_degrees stores is compared with the radian limits to 1e-12 below)
            let x = rs_opw_kinematics::constraints::Constraints::from_degrees(std::array::from_fn(|k| lim.from[k].to_degrees()..=lim.to[k].to_degrees()), lim.weight);
            if (0..6).all(|k| (x.from[k] - lim.from[k]).abs() <= 1e-12 && (x.to[k] - lim.to[k]).abs() <= 1e-12 && (lim.from[k] < lim.to[k]) == (x.from[k] < x.to[k]) && (lim.from[k] == lim.to[k]) == (x.from[k] == x.to[k])) {
                ctx.class("limits given in degrees (from_degrees)");
                x
            } else {
                lim.build()
            }
        } else {
            lim.build()
        };
        let with = build_stack(Arc::new(opw_c(r, cons)), &c.layers);
        let without = build_stack(Arc::new(opw(r)), &c.layers);

        // the limits a wrapper reports are those of the robot it wraps
        match with.constraints() {
            Some(rep) => ensure!(same_limits(rep, &cons), "the limits a wrapper reports are those of the robot it wraps", "reported {:?} expected {:?}", rep, cons),
            None => return Err(viol!("the limits a wrapper reports are those of the robot it wraps", "stack {} reports no limits", stack_name(&c.layers))),
        }
        ensure!(without.constraints().is_none(), "a stack around an unconstrained robot reports no limits", "stack {}", stack_name(&c.layers));

        // request: the stack's forward pose of the outer joints that correspond to the source inner joints.
        // (any reachable pose will do; we use the model composition at `src` taken as inner joints)
        let flange = r.fk(&src);
        let mut tcp = flange;
        for l in &c.layers {
            tcp = match l {
                Layer::Tool(t) => tcp.mul(&t.iso()),
                Layer::Frame(f) => tcp.mul(&f.iso()),
                Layer::Base(b) => b.iso().mul(&tcp),
                Layer::Para { .. } => tcp,
            };
        }
        let na = to_na(&tcp);
        let prev = c.prev.resolve(Some(src));
        let a = call_entry(with.as_ref(), entry, &na, &prev, c.j6).map_err(|m| viol!("no panic", "{} (with limits): {}", what, m))?;
        let b = call_entry(without.as_ref(), entry, &na, &prev, c.j6).map_err(|m| viol!("no panic", "{} (without limits): {}", what, m))?;

        // every returned vector satisfies the limits
        let g = 1e-9;
        for s in &a {
            let inner = decouple(&c.layers, s);
            match arc_member6(&lim.from, &lim.to, &inner, g) {
                Verdict::Out => {
                    return Err(viol!(
                        "every joint vector returned by a constrained solver satisfies the limits",
                        "{}: answer {:?} (inner {:?}) violates from={:?} to={:?} [stack {}, dof {}]",
                        what,
                        s,
                        inner,
                        lim.from,
                        lim.to,
                        stack_name(&c.layers),
                        r.dof
                    ))
                }
                Verdict::Undecided => ctx.exclude("returned answer inside the guard band of a limit"),
                Verdict::In => {}
            }
        }
        // every solution of the same query without limits that satisfies them is still returned
        let sentinel = matches!(c.prev, PrevGen::Centered);
        let singularish = a.iter().chain(b.iter()).any(|s| r.model_angles(&decouple(&c.layers, s))[4].sin().abs() < 1e-3) || r.model_angles(&src)[4].sin().abs() < 1e-3;
        let mut admitted = 0;
        let mut rejected = 0;
        let a_inner: Vec<[f64; 6]> = a.iter().map(|s| decouple(&c.layers, s)).collect();
        // With the CONSTRAINT_CENTERED marker "previous" means the constraint centres, which the solver without limits does not have:
        // where the answer depends on previous beyond order and 2 pi representative - the recovered answer at a wrist singularity, and
        // J6 (hence everything) of the continuing 5-DOF path - the two calls are not the same query.
        let five_continuing = entry == 3 || (entry == 1 && r.dof == 5);
        let skip_completeness = sentinel && (five_continuing || (singularish && entry == 1));
        if skip_completeness {
            ctx.exclude("set comparison skipped: CONSTRAINT_CENTERED where the answer depends on what 'previous' resolves to (wrist-singular pose / continuing 5-DOF path)");
        }
        // A 5-DOF call with CONSTRAINT_CENTERED normalises J6 near the constraint centre: compare modulo 2 pi.
        for s in &b {
            let inner = decouple(&c.layers, s);
            match arc_member6(&lim.from, &lim.to, &inner, g) {
                Verdict::In => {
                    admitted += 1;
                    if !skip_completeness {
                        let found = a_inner.iter().any(|t| joints_circ_dist(t, &inner) <= 1e-9);
                        ensure!(
                            found,
                            "every solution of the same query without limits that satisfies them is still returned",
                            "{}: unconstrained answer {:?} (inner {:?}) satisfies from={:?} to={:?} but is missing from the constrained answer {:?} [stack {}, dof {}]",
                            what,
                            s,
                            inner,
                            lim.from,
                            lim.to,
                            a,
                            stack_name(&c.layers),
                            r.dof
                        );
                    }
                }
                Verdict::Out => rejected += 1,
                Verdict::Undecided => ctx.exclude("unconstrained answer inside the guard band of a limit"),
            }
        }
        // ... and nothing else is returned: every constrained answer is an answer of the unconstrained query
        if !skip_completeness {
            let b_inner: Vec<[f64; 6]> = b.iter().map(|s| decouple(&c.layers, s)).collect();
            for t in &a_inner {
                let found = b_inner.iter().any(|u| joints_circ_dist(t, u) <= 1e-5);
                ensure!(found, "a constrained solver returns only solutions of the same query without limits", "{}: constrained answer (inner) {:?} is not among the unconstrained answers {:?} [stack {}]", what, t, b_inner, stack_name(&c.layers));
            }
        }
        ctx.class_n("unconstrained-answers-admitted", admitted);
        ctx.class_n("unconstrained-answers-rejected", rejected);
        if admitted >= 1 && rejected >= 1 {
            ctx.nontrivial();
        }
        Ok(())
    }
}
