//! C20 — URDF extraction recovers parameters, signs and limits of any OPW-layout robot.

use crate::engine::*;
use crate::model::*;
use crate::{ensure, viol};
use proptest::prelude::*;
use rs_opw_kinematics::kinematic_traits::Kinematics;
use rs_opw_kinematics::urdf::from_urdf;
use serde::{Deserialize, Serialize};

pub struct C20;

#[derive(Clone, Debug, Serialize, Deserialize)]
pub struct UrdfSpec {
    pub lengths: [f64; 7], // a1 a2 b c1 c2 c3 c4
    pub signs: [i8; 6],    // +-1
    /// per joint: None = no <limit>; Some((lo, hi, style)): style 0 radians, 1 ${radians(deg)} (lo/hi are degrees then)
    pub limits: [Option<(f64, f64, u8)>; 6],
    /// layout: bit0 c2 along x (else z) on joint 3; bit1 c3 together with a2 on joint 4 (needs a2 != 0); bit2 c3 as y on joint 4 (else x);
    /// bit3 c3 along z on joint 5 (else x); bit4 c4 along z on joint 6 (else x)
    pub layout: u8,
    /// declaration order of the six joints (permutation seed)
    pub order: u16,
    /// 0 plain "joint_N", 1 ${prefix}joint_N, 2 alphabetic prefix + '_', 3 upper case, 4 "joint_aN" style, 5 trailing punctuation, 6 jointN
    pub naming: u8,
    /// nesting depth of wrapper elements around the joints (0..3)
    pub nesting: u8,
    /// extras: bit0 unrelated fixed joints, bit1 links with visual origins in between, bit2 a second identical copy, bit3 omit <axis> for +1 joints
    pub extras: u8,
    /// use an explicit joint-name list with arbitrary names
    pub explicit_names: bool,
}

#[derive(Clone, Debug, Serialize, Deserialize)]
pub enum Case {
    Valid { u: UrdfSpec, q: [f64; 6] },
    /// 0: a joint missing; 1: conflicting duplicate (origin); 2: truncated document; 3: non-numeric origin; 4: duplicate with the axis reversed; 5: duplicate with other limits
    Invalid { u: UrdfSpec, kind: u8, which: u8 },
    /// one document with two different robots under different explicit joint names; extracted a, b, a again
    Cell { a: UrdfSpec, b: UrdfSpec },
    Mutated { u: UrdfSpec, edits: Vec<(u16, u8, u8)> },
    Bytes { data: Vec<u8> },
}

fn fnum(x: f64) -> String {
    format!("{}", x)
}

fn perm6(seed: u16) -> [usize; 6] {
    let mut p = [0, 1, 2, 3, 4, 5];
    let mut s = seed as usize;
    for i in (1..6).rev() {
        let j = s % (i + 1);
        s /= i + 1;
        p.swap(i, j);
    }
    p
}

pub struct Rendered {
    pub xml: String,
    pub names: Option<[String; 6]>,
    pub expected_lengths: [f64; 7],
    pub expected_from: [f64; 6],
    pub expected_to: [f64; 6],
}

fn joint_name(naming: u8, n: usize, explicit: bool) -> String {
    if explicit {
        return ["shoulder_pan", "arm-lift", "ELBOW", "wrist.roll", "wrist_pitch", "tool_flange_rot"][n - 1].to_string();
    }
    match naming % 9 {
        7 => format!("${{joint_prefix}}joint_{}", n),       // the macro parameter's own name contains "joint"
        8 => format!("${{prefix}}joint_{}${{suffix}}", n), // a macro after the number as well
        0 => format!("joint_{}", n),
        1 => format!("${{prefix}}joint_{}", n),
        2 => format!("left_arm_joint_{}", n),
        3 => format!("${{prefix}}JOINT_{}", n),
        4 => format!("${{prefix}}joint_a{}", n),
        5 => format!("robot2_Joint_{}!", n),
        _ => format!("joint{}", n),
    }
}

/// R-urdf: render an OPW robot description in one of the supported joint layouts.
pub fn render(u: &UrdfSpec) -> Rendered {
    let [a1, a2, b, c1, c2, c3, c4] = u.lengths;
    let l = u.layout;
    let c3_on_j4 = l & 2 != 0 && a2 != 0.0 && c3 != 0.0;
    let mut origins: [[f64; 3]; 6] = [[0.0; 3]; 6];
    origins[0] = [0.0, 0.0, c1];
    origins[1] = [a1, 0.0, 0.0];
    origins[2] = if l & 1 != 0 { [c2, b, 0.0] } else { [0.0, b, c2] };
    if c3_on_j4 {
        origins[3] = if l & 4 != 0 { [0.0, c3, -a2] } else { [c3, 0.0, -a2] };
        origins[4] = [0.0; 3];
    } else {
        origins[3] = [0.0, 0.0, -a2];
        origins[4] = if l & 8 != 0 { [0.0, 0.0, c3] } else { [c3, 0.0, 0.0] };
    }
    origins[5] = if l & 16 != 0 { [0.0, 0.0, c4] } else { [c4, 0.0, 0.0] };
    // canonical rotation axes of the OPW chain in the URDF zero pose: z, y, y, x/z..., only the sign matters to the extractor
    let axes: [[f64; 3]; 6] = [[0.0, 0.0, 1.0], [0.0, 1.0, 0.0], [0.0, 1.0, 0.0], [1.0, 0.0, 0.0], [0.0, 1.0, 0.0], [1.0, 0.0, 0.0]];
    let mut from = [0.0; 6];
    let mut to = [0.0; 6];
    let mut joints_xml: Vec<String> = Vec::new();
    let names: Vec<String> = (1..=6).map(|n| joint_name(u.naming, n, u.explicit_names)).collect();
    for i in 0..6 {
        let o = origins[i];
        let mut s = String::new();
        s.push_str(&format!("<joint name=\"{}\" type=\"revolute\">\n", names[i]));
        s.push_str(&format!("  <origin xyz=\"{} {} {}\" rpy=\"0 0 0\"/>\n", fnum(o[0]), fnum(o[1]), fnum(o[2])));
        s.push_str(&format!("  <parent link=\"link_{}\"/>\n  <child link=\"link_{}\"/>\n", i, i + 1));
        let sg = u.signs[i] as f64;
        if !(u.extras & 8 != 0 && u.signs[i] > 0) {
            let a = axes[i];
            let f = |v: f64| if v == 0.0 { "0".to_string() } else { fnum(v * sg) };
            s.push_str(&format!("  <axis xyz=\"{} {} {}\"/>\n", f(a[0]), f(a[1]), f(a[2])));
        }
        if let Some((lo, hi, style)) = u.limits[i] {
            if style % 2 == 1 {
                s.push_str(&format!("  <limit lower=\"${{radians({})}}\" upper=\"${{radians({})}}\" effort=\"0\" velocity=\"${{radians(360)}}\"/>\n", fnum(lo), fnum(hi)));
                from[i] = lo.to_radians();
                to[i] = hi.to_radians();
            } else {
                s.push_str(&format!("  <limit lower=\"{}\" upper=\"{}\" effort=\"0\" velocity=\"2.6\"/>\n", fnum(lo), fnum(hi)));
                from[i] = lo;
                to[i] = hi;
            }
        }
        s.push_str("</joint>\n");
        joints_xml.push(s);
    }
    let order = perm6(u.order);
    let mut body = String::new();
    for (n, &i) in order.iter().enumerate() {
        if u.extras & 2 != 0 {
            body.push_str(&format!("<link name=\"link_{}\"><visual><origin xyz=\"0.5 0.25 0.125\" rpy=\"0 0 0\"/><geometry><mesh filename=\"l{}.stl\"/></geometry></visual></link>\n", i, i));
        }
        body.push_str(&joints_xml[i]);
        if u.extras & 1 != 0 && n == 2 {
            body.push_str("<joint name=\"base_link-base\" type=\"fixed\">\n  <origin xyz=\"0 0 0.33\" rpy=\"0 0 0\"/>\n  <parent link=\"base_link\"/>\n  <child link=\"base\"/>\n</joint>\n");
            body.push_str("<joint name=\"link_6-tool0\" type=\"fixed\">\n  <origin xyz=\"0.1 0.2 0.3\" rpy=\"0 1.57 0\"/>\n  <parent link=\"flange\"/>\n  <child link=\"tool0\"/>\n</joint>\n");
        }
    }
    let wrap = |inner: &str, depth: u8| -> String {
        let mut s = inner.to_string();
        for d in 0..depth {
            s = match d % 3 {
                0 => format!("<xacro:macro name=\"robot\" params=\"prefix\">\n{}</xacro:macro>\n", s),
                1 => format!("<group ns=\"cell\">\n{}</group>\n", s),
                _ => format!("<xacro:if value=\"true\">\n{}</xacro:if>\n", s),
            };
        }
        s
    };
    let mut content = wrap(&body, u.nesting % 4);
    if u.extras & 4 != 0 {
        // a second, identical copy of the robot
        content.push_str(&wrap(&body, (u.nesting + 1) % 4));
    }
    let xml = format!("<?xml version=\"1.0\"?>\n<robot xmlns:xacro=\"http://wiki.ros.org/xacro\" name=\"generated\">\n<!-- generated OPW robot -->\n{}</robot>\n", content);
    let expected_lengths = [a1, if a2 == 0.0 { 0.0 } else { a2 }, b, c1, c2, c3, c4];
    let names_arr = if u.explicit_names { Some([names[0].clone(), names[1].clone(), names[2].clone(), names[3].clone(), names[4].clone(), names[5].clone()]) } else { None };
    Rendered { xml, names: names_arr, expected_lengths, expected_from: from, expected_to: to }
}

/// The extraction clauses proper: lengths, signs, limits, dof.
fn verify_extraction(p: &rs_opw_kinematics::urdf::URDFParameters, r: &Rendered, u: &UrdfSpec, what: &str) -> Res {
    let g = [p.a1, p.a2, p.b, p.c1, p.c2, p.c3, p.c4];
    let names = ["a1", "a2", "b", "c1", "c2", "c3", "c4"];
    for k in 0..7 {
        let w = r.expected_lengths[k];
        ensure!((g[k] - w).abs() <= 1e-12 * (1.0 + w.abs()), "extraction returns the generating parameters", "{}{} = {} expected {}\n{}", what, names[k], g[k], w, r.xml);
    }
    ensure!(p.sign_corrections == u.signs, "extraction returns the axis-derived sign corrections", "{}{:?} expected {:?}\n{}", what, p.sign_corrections, u.signs, r.xml);
    for k in 0..6 {
        // (1e-12 relative: the conversion of written degrees to radians is not promised to the last bit)
        let close = |a: f64, b: f64| (a - b).abs() <= 1e-12 * (1.0 + b.abs());
        ensure!(close(p.from[k], r.expected_from[k]) && close(p.to[k], r.expected_to[k]), "extraction returns the joint limits", "{}joint {}: [{}, {}] expected [{}, {}]\n{}", what, k + 1, p.from[k], p.to[k], r.expected_from[k], r.expected_to[k], r.xml);
    }
    ensure!(p.dof == 6, "dof = 6 when all six named joints exist", "{}dof = {}", what, p.dof);
    Ok(())
}

fn call(xml: &str, names: &Option<[String; 6]>) -> Result<Result<rs_opw_kinematics::urdf::URDFParameters, String>, String> {
    let x = xml.to_string();
    match names {
        Some(n) => {
            let arr: [&str; 6] = [&n[0], &n[1], &n[2], &n[3], &n[4], &n[5]];
            no_panic(|| from_urdf(x, &Some(arr)).map_err(|e| e.to_string()))
        }
        None => no_panic(|| from_urdf(x, &None).map_err(|e| e.to_string())),
    }
}

/// Shared with the libFuzzer target.
pub fn bytes_no_panic(data: &[u8]) -> Result<(), String> {
    let s = String::from_utf8_lossy(data).to_string();
    call(&s, &None).map(|_| ())
}

fn length_strategy(nonzero: bool) -> BoxedStrategy<f64> {
    if nonzero {
        prop_oneof![3 => (1i32..2000).prop_map(|m| m as f64 / 1000.0), 2 => 0.01..2.0f64, 1 => Just(1.0)].boxed()
    } else {
        prop_oneof![2 => Just(0.0), 3 => (-500i32..500).prop_map(|m| m as f64 / 1000.0), 2 => -0.5..0.5f64].boxed()
    }
}

fn spec_strategy() -> BoxedStrategy<UrdfSpec> {
    let limit = prop_oneof![
        2 => Just(None),
        3 => (-6.3..0.0f64, 0.0..6.3f64).prop_map(|(a, b)| Some((a, b, 0u8))),
        2 => (-360i32..0, 0i32..360).prop_map(|(a, b)| Some((a as f64, b as f64, 1u8))),
        1 => (-3600i32..0, 0i32..3600).prop_map(|(a, b)| Some((a as f64 / 10.0, b as f64 / 10.0, 1u8))),
        1 => (-6.3..6.3f64, -6.3..6.3f64).prop_map(|(a, b)| Some((a, b, 0u8))),
    ];
    (
        (length_strategy(false), length_strategy(false), length_strategy(false), length_strategy(true), length_strategy(true), length_strategy(true), length_strategy(true)),
        0u8..64,
        prop_oneof![5 => prop::array::uniform6(limit), 1 => Just([None; 6])],
        (0u8..32, any::<u16>(), 0u8..9, 0u8..4, 0u8..16, prop_oneof![4 => Just(false), 1 => Just(true)]),
    )
        .prop_map(|((a1, a2, b, c1, c2, c3, c4), bits, limits, (layout, order, naming, nesting, extras, explicit_names))| {
            let mut signs = [1i8; 6];
            for k in 0..6 {
                if bits & (1 << k) != 0 {
                    signs[k] = -1;
                }
            }
            // a1 on joint 2 must be the only non-zero entry; a1 = 0 is fine
            UrdfSpec { lengths: [a1, a2, b, c1, c2, c3, c4], signs, limits, layout, order, naming, nesting, extras, explicit_names }
        })
        .boxed()
}

fn apply_edits(doc: &str, edits: &[(u16, u8, u8)]) -> Vec<u8> {
    let mut b = doc.as_bytes().to_vec();
    let tokens: [&[u8]; 14] = [b"<", b">", b"/>", b"\"", b"</joint>", b"<joint name=\"joint_1\">", b"xyz=\"", b" ", b"${radians(", b")}", b"&", b"<!--", b"-->", b"0 0"];
    for (pos, op, byte) in edits {
        if b.is_empty() {
            b.push(*byte);
            continue;
        }
        let i = (*pos as usize) % b.len();
        match op % 6 {
            0 => b[i] = *byte,
            1 => {
                b.remove(i);
            }
            2 => b.insert(i, *byte),
            3 => b.truncate(i),
            4 => {
                let t = tokens[(*byte as usize) % tokens.len()];
                for (k, x) in t.iter().enumerate() {
                    b.insert(i + k, *x);
                }
            }
            _ => {
                let start = b[..i].iter().rposition(|c| *c == b'\n').map(|x| x + 1).unwrap_or(0);
                let end = b[i..].iter().position(|c| *c == b'\n').map(|x| i + x + 1).unwrap_or(b.len());
                b.drain(start..end);
            }
        }
    }
    b
}

/// Rendered valid documents (seed corpus of the libFuzzer target).
pub fn corpus_strategy() -> BoxedStrategy<String> {
    spec_strategy().prop_map(|u| render(&u).xml).boxed()
}

impl Property for C20 {
    type Case = Case;
    fn id(&self) -> &'static str {
        "C20"
    }
    fn rule(&self) -> String {
        "documents rendered from OPW values (mm grid, arbitrary reals, zeros for a1/a2/b) in the supported layouts (c2 along z or x, b as y on joint 3, c3 on joint 5 or with a2 on joint 4 as x or y, c4 along x or z) x axis signs (axis omitted for +1) \
         x limit syntax (radians, ${radians(deg)} integer/decimal, none) x all joint declaration orders x nesting depth 0..3 (xacro:macro / group / xacro:if) x naming decorations (${prefix}, ${joint_prefix}, ${prefix}..${suffix}, alphabetic prefix+_, upper case, joint_aN, trailing punctuation) \
         x unrelated fixed joints / links with visual origins / a second identical copy x explicit joint-name lists with arbitrary names (also two different robots in one document, extracted a, b, a); negative space: a missing joint, a conflicting duplicate (differing in origin, in axis direction only or in limits only), truncated XML, non-numeric origin; byte/token-level mutants and arbitrary bytes (plus the libFuzzer target urdf_bytes in the thorough tier). \
         Non-trivial: a valid document with a permuted order, a non-default layout or a decoration; every negative / mutated document."
            .into()
    }
    fn assumptions(&self) -> Vec<String> {
        vec![
            "every number is printed with Rust's shortest round-trip formatting, so the extracted values must be bit-equal (a2 = -0 and 0 are identified)".into(),
            "layouts outside the extractor's documented heuristics (e.g. b != 0 with c2 = 0, c3 on joint 4 with a2 = 0) are not generated".into(),
            "the 5-DOF 'TCP name instead of joint 6' path is not part of the statement and is not asserted".into(),
        ]
    }
    fn plan(&self, tier: Tier) -> Plan {
        Plan { workers: tier.pick(4, 16), cases_per_worker: tier.pick(2_500, 25_000), max_shrink_iters: 1000 }
    }
    fn strategy(&self, _tier: Tier) -> BoxedStrategy<Case> {
        prop_oneof![
            5 => (spec_strategy(), crate::gen::joints_uniform()).prop_map(|(u, q)| Case::Valid { u, q }),
            2 => (spec_strategy(), 0u8..6, 0u8..6).prop_map(|(u, kind, which)| Case::Invalid { u, kind, which }),
            1 => (spec_strategy(), spec_strategy()).prop_map(|(a, b)| Case::Cell { a, b }),
            4 => (spec_strategy(), prop::collection::vec((any::<u16>(), 0u8..6, any::<u8>()), 1..6)).prop_map(|(u, edits)| Case::Mutated { u, edits }),
            1 => prop::collection::vec(any::<u8>(), 0..300).prop_map(|data| Case::Bytes { data }),
        ]
        .boxed()
    }
    fn check(&self, c: &Case, ctx: &mut Ctx) -> Res {
        match c {
            Case::Valid { u, q } => {
                let r = render(u);
                let got = call(&r.xml, &r.names).map_err(|m| viol!("extraction never panics", "panic: {}\n{}", m, r.xml))?;
                let p = got.map_err(|e| viol!("extraction succeeds for every robot description generated in the supported layouts", "from_urdf failed: {}\n{}", e, r.xml))?;
                verify_extraction(&p, &r, u, "")?;
                // to_robot / constraints / parameters consistent
                let offsets = [0.0, 0.1, -0.2, 0.0, 0.3, 0.0];
                let params = p.parameters(&offsets);
                ensure!(params.a1 == p.a1 && params.a2 == p.a2 && params.b == p.b && params.c1 == p.c1 && params.c2 == p.c2 && params.c3 == p.c3 && params.c4 == p.c4 && params.offsets == offsets && params.sign_corrections == p.sign_corrections && params.dof == 6, "parameters() is consistent with the extraction", "{:?}", params);
                let cons = p.constraints(0.25);
                ensure!(cons.from == p.from && cons.to == p.to && cons.sorting_weight == 0.25, "constraints() is consistent with the extraction", "{:?}", cons);
                let robot = p.to_robot(0.0, &offsets);
                let rc = robot.constraints().as_ref().ok_or_else(|| viol!("to_robot attaches the limits", "none"))?;
                ensure!(rc.from == p.from && rc.to == p.to, "to_robot() is consistent with the extraction", "{:?}", rc);
                // a joint without limits is unconstrained in the resulting solver
                let spec = RobotSpec { a1: p.a1, a2: p.a2, b: p.b, c1: p.c1, c2: p.c2, c3: p.c3, c4: p.c4, offsets, signs: p.sign_corrections, dof: 6 };
                let unlimited: Vec<usize> = (0..6).filter(|k| u.limits[*k].is_none()).collect();
                if !unlimited.is_empty() {
                    // any angle is compliant on such a joint: probe with the centre of the others
                    let mut v = rc.centers;
                    for &k in &unlimited {
                        v[k] = q[k] * 2.0;
                    }
                    ensure!(rc.compliant(&v), "a joint without limits becomes an unconstrained joint of the resulting solver", "vector {:?} rejected; from={:?} to={:?}", v, rc.from, rc.to);
                    if unlimited.len() == 6 && crate::props::c02::margins_ok(&spec, q).is_ok() {
                        let pose = crate::glue::to_na(&spec.fk(q));
                        let sols = no_panic(|| robot.inverse(&pose)).map_err(|m| viol!("no panic", "{}", m))?;
                        ensure!(crate::props::c02::contains_mod2pi(&sols, q, 1e-6), "a robot without any limits still finds the generating joints", "q={:?} not in {:?}", q, sols);
                        ctx.class("valid:fully-unlimited robot solved");
                    }
                    ctx.class("valid:some joint without <limit>");
                }
                let mut nontriv = false;
                if perm6(u.order) != [0, 1, 2, 3, 4, 5] {
                    ctx.class("valid:permuted-order");
                    nontriv = true;
                }
                if u.layout & 1 != 0 || (u.layout & 2 != 0 && u.lengths[1] != 0.0) || u.lengths[2] != 0.0 {
                    ctx.class("valid:non-default-layout");
                    nontriv = true;
                }
                if u.naming % 9 != 0 || u.explicit_names {
                    ctx.class(if u.explicit_names { "valid:explicit-names" } else { "valid:decorated-names" });
                    nontriv = true;
                }
                if u.extras & 4 != 0 {
                    ctx.class("valid:second-identical-copy");
                }
                if u.nesting % 4 != 0 {
                    ctx.class("valid:nested");
                }
                if nontriv {
                    ctx.nontrivial();
                }
                Ok(())
            }
            Case::Cell { a, b } => {
                // two different robots in one document, told apart by explicit joint-name lists only
                let mut ua = a.clone();
                let mut ub = b.clone();
                ua.explicit_names = true;
                ub.explicit_names = true;
                ua.extras &= !4;
                ub.extras &= !4;
                let ra = render(&ua);
                let mut rb = render(&ub);
                // rename robot b's joints and links
                let nb: [String; 6] = std::array::from_fn(|k| format!("{}_b", rb.names.as_ref().unwrap()[k]));
                for k in 0..6 {
                    rb.xml = rb.xml.replace(&format!("<joint name=\"{}\"", rb.names.as_ref().unwrap()[k]), &format!("<joint name=\"{}\"", nb[k]));
                }
                rb.xml = rb.xml.replace("link_", "b_link_").replace("base_link-base", "b_base_link-base").replace("b_link_6-tool0", "b_link6-tool0");
                rb.names = Some(nb);
                let body_b = {
                    let s0 = rb.xml.find("<!-- generated OPW robot -->\n").map(|k| k + 29).unwrap();
                    let e0 = rb.xml.rfind("</robot>").unwrap();
                    rb.xml[s0..e0].to_string()
                };
                let xml = ra.xml.replace("</robot>", &format!("{}</robot>", body_b));
                let (mut ra, mut rb) = (ra, rb);
                ra.xml = xml.clone();
                rb.xml = xml.clone();
                for (round, (r, u)) in [(&ra, &ua), (&rb, &ub), (&ra, &ua)].iter().enumerate() {
                    let got = call(&xml, &r.names).map_err(|m| viol!("extraction never panics", "panic: {}\n{}", m, xml))?;
                    let p = got.map_err(|e| viol!("extraction succeeds for every robot description generated in the supported layouts", "two robots in one document, call {}: from_urdf failed: {}\n{}", round + 1, e, xml))?;
                    verify_extraction(&p, r, u, &format!("two robots in one document, call {} ({}): ", round + 1, if round == 1 { "robot b" } else { "robot a" }))?;
                }
                ctx.class("valid:two robots in one document told apart by explicit names (a, b, a)");
                ctx.nontrivial();
                Ok(())
            }
            Case::Invalid { u, kind, which } => {
                let r = render(u);
                let w = (*which % 6) as usize;
                let name = joint_name(u.naming, w + 1, u.explicit_names);
                let marker = format!("<joint name=\"{}\"", name);
                let xml = match kind % 6 {
                    0 => {
                        // remove every copy of one joint
                        let mut x = r.xml.clone();
                        while let Some(s) = x.find(&marker) {
                            let e = x[s..].find("</joint>\n").map(|k| s + k + 9).unwrap_or(x.len());
                            x.replace_range(s..e, "");
                        }
                        x
                    }
                    1 => {
                        // conflicting duplicate: same name, different origin
                        let dup = format!("<joint name=\"{}\" type=\"revolute\">\n  <origin xyz=\"9.5 0 0\" rpy=\"0 0 0\"/>\n  <axis xyz=\"0 0 1\"/>\n</joint>\n", name);
                        r.xml.replace("</robot>", &format!("{}</robot>", dup))
                    }
                    4 | 5 => {
                        // conflicting duplicate that differs from the original joint in one respect only: the axis direction (4) or the limits (5)
                        let mut u2 = u.clone();
                        if kind % 6 == 4 {
                            u2.signs[w] = -u2.signs[w];
                        } else {
                            u2.limits[w] = match u2.limits[w] {
                                None => Some((-1.0, 1.0, 0)),
                                Some((lo, hi, st)) => Some((lo, hi + 0.5, st)),
                            };
                        }
                        let x2 = render(&u2).xml;
                        let s0 = x2.find(&marker).expect("rendered joint");
                        let e0 = x2[s0..].find("</joint>\n").map(|k| s0 + k + 9).unwrap();
                        r.xml.replace("</robot>", &format!("{}</robot>", &x2[s0..e0]))
                    }
                    2 => {
                        let cut = r.xml.len() * (1 + w) / 8;
                        r.xml[..cut].to_string()
                    }
                    _ => {
                        // non-numeric origin on one joint
                        match r.xml.find(&marker) {
                            Some(s) => {
                                let o = r.xml[s..].find("xyz=\"").map(|k| s + k + 5).unwrap();
                                let mut x = r.xml.clone();
                                x.insert_str(o, "abc ");
                                x
                            }
                            None => r.xml[..r.xml.len() / 2].to_string(),
                        }
                    }
                };
                let got = call(&xml, &r.names).map_err(|m| viol!("missing joints, conflicting duplicates or malformed XML yield an error value rather than a panic", "panic: {}\n{}", m, xml))?;
                ensure!(got.is_err(), "missing joints, conflicting duplicates or malformed XML yield an error value", "kind {} on joint {}: from_urdf returned Ok({:?})\n{}", kind % 6, w + 1, got, xml);
                ctx.class(["invalid:missing-joint", "invalid:conflicting-duplicate (origin)", "invalid:truncated", "invalid:non-numeric-origin", "invalid:conflicting-duplicate (axis direction only)", "invalid:conflicting-duplicate (limits only)"][(kind % 6) as usize]);
                ctx.nontrivial();
                Ok(())
            }
            Case::Mutated { u, edits } => {
                let r = render(u);
                let bytes = apply_edits(&r.xml, edits);
                let s = String::from_utf8_lossy(&bytes).to_string();
                let got = call(&s, &r.names).map_err(|m| viol!("malformed documents yield an error value rather than a panic", "panic: {}\n{}", m, s))?;
                ctx.class(if got.is_ok() { "mutated:still-extracts" } else { "mutated:error-value" });
                ctx.nontrivial();
                Ok(())
            }
            Case::Bytes { data } => {
                bytes_no_panic(data).map_err(|m| viol!("malformed documents yield an error value rather than a panic", "panic: {} on {:?}", m, String::from_utf8_lossy(data)))?;
                ctx.class("bytes");
                ctx.nontrivial();
                Ok(())
            }
        }
    }
}
