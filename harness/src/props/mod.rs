pub mod c03;
