//! C07 — joint limits mean arc membership modulo 2*pi.

use crate::arc::*;
use crate::engine::*;
use crate::model::*;
use crate::{ensure, viol};
use proptest::prelude::*;
use rayon::prelude::*;
use rs_opw_kinematics::constraints::Constraints;
use serde::{Deserialize, Serialize};
use std::sync::atomic::{AtomicU64, Ordering};

pub struct C07;

#[derive(Clone, Debug, Serialize, Deserialize)]
pub enum Case {
    /// lattice point in half-degrees (value = h/2 degrees); ctor 0 from_degrees, 1 new (radians), 2 update_range
    Lattice { from_h: i32, to_h: i32, x_h: i32, ctor: u8 },
    /// random reals (radians); k_angle / k_limits: whole turns added for the metamorphic clauses
    Real { from: f64, to: f64, x: f64, k_angle: i8, k_limits: i8, ctor: u8 },
    /// six-joint sets for filter / compliant / centres
    Set { from: [f64; 6], to: [f64; 6], weight: f64, vectors: Vec<[f64; 6]> },
}

fn build(from: [f64; 6], to: [f64; 6], ctor: u8, in_degrees: bool) -> Constraints {
    // `from`/`to` are degrees when in_degrees, radians otherwise
    match ctor % 3 {
        0 => {
            if in_degrees {
                Constraints::from_degrees([from[0]..=to[0], from[1]..=to[1], from[2]..=to[2], from[3]..=to[3], from[4]..=to[4], from[5]..=to[5]], 0.0)
            } else {
                // from_degrees on converted radians would add rounding; use new() for radians input
                Constraints::new(from, to, 0.0)
            }
        }
        1 => {
            if in_degrees {
                Constraints::new(from.map(|x| x.to_radians()), to.map(|x| x.to_radians()), 0.0)
            } else {
                Constraints::new(from, to, 0.0)
            }
        }
        _ => {
            let mut c = Constraints::new([0.1; 6], [0.2; 6], 0.0);
            if in_degrees {
                c.update_range(from.map(|x| x.to_radians()), to.map(|x| x.to_radians()));
            } else {
                c.update_range(from, to);
            }
            c
        }
    }
}

fn lattice_point(from_h: i32, to_h: i32, x_h: i32, ctor: u8) -> Result<Option<bool>, Violation> {
    // width-less wrap-around arcs (from > to, from == to mod 360) are excluded
    if from_h > to_h && (from_h - to_h) % 720 == 0 {
        return Ok(None);
    }
    let want = {
        // integer decision with 720 half-degrees per turn
        let (f, t, x) = (from_h as i64, to_h as i64, x_h as i64);
        if f == t {
            true
        } else {
            let span = if f < t {
                if t - f >= 720 {
                    720
                } else {
                    t - f
                }
            } else {
                (t - f).rem_euclid(720)
            };
            span >= 720 || (x - f).rem_euclid(720) <= span
        }
    };
    let fd = from_h as f64 / 2.0;
    let td = to_h as f64 / 2.0;
    let xd = x_h as f64 / 2.0;
    let c = build([fd; 6], [td; 6], ctor, true);
    let got = c.compliant(&[xd.to_radians(); 6]);
    if got != want {
        return Err(viol!(
            "a joint value is accepted exactly when it lies on the arc from 'from' to 'to' (boundaries included)",
            "from={} deg to={} deg angle={} deg constructor={}: compliant={} expected={}",
            fd,
            td,
            xd,
            ["from_degrees", "new", "update_range"][(ctor % 3) as usize],
            got,
            want
        ));
    }
    Ok(Some(want))
}

impl Property for C07 {
    type Case = Case;
    fn id(&self) -> &'static str {
        "C07"
    }
    fn rule(&self) -> String {
        "enumerated: every (from,to,angle) on the 5-degree lattice in [-720,720]^3 (289^3 triples; thorough adds the 2.5-degree lattice, 577^3) through each of from_degrees / new / update_range, decided in exact \
         integer arithmetic including the boundary points; width-less wrap-around arcs (from>to, from==to mod 360) are excluded and counted. Random: reals in [-4pi,4pi]^3 decided by oracle A with a 1e-9 guard band (undecided -> excluded), \
         with whole turns added to the angle / to both limits; six-joint sets for filter, centres and update_range. Every lattice triple and every decided random case is non-trivial; distinct = enumerated lattice triples x constructors (distinct by construction, counted) + distinct serialized random cases."
            .into()
    }
    fn assumptions(&self) -> Vec<String> {
        vec![
            "oracle A: from==to -> all; from<to: span=to-from, >=2pi -> all; from>to: span=(to-from) mod 2pi; accept iff ((x-from) mod 2pi) <= span".into(),
            "lattice decisions are exact (integer half-degrees); real decisions exclude a 1e-9 rad guard band around both arc ends".into(),
        ]
    }
    fn plan(&self, tier: Tier) -> Plan {
        Plan { workers: tier.pick(4, 16), cases_per_worker: tier.pick(250_000, 1_000_000), max_shrink_iters: 4000 }
    }
    fn selftest(&self) -> Result<serde_json::Value, String> {
        crate::selftest::arc_selftest()
    }
    fn enumerate(&self, tier: Tier, ctx: &mut Ctx) -> Result<(), (Case, Violation)> {
        // step in half-degrees: 10 = 5 degree lattice; thorough also 5 = 2.5 degree lattice
        let steps: Vec<i32> = tier.pick(vec![10], vec![10, 5]);
        let counted = AtomicU64::new(0);
        let excluded = AtomicU64::new(0);
        let accepted = AtomicU64::new(0);
        let boundary = AtomicU64::new(0);
        for step in steps {
            let vals: Vec<i32> = (-1440 / step..=1440 / step).map(|i| i * step).collect();
            let r = vals.par_iter().find_map_first(|&from_h| {
                let mut n = 0u64;
                let mut ex = 0u64;
                let mut acc = 0u64;
                let mut bnd = 0u64;
                for &to_h in &vals {
                    // on the finer lattice skip triples already covered by the coarser one
                    for ctor in 0..3u8 {
                        let fd = from_h as f64 / 2.0;
                        let td = to_h as f64 / 2.0;
                        let c = build([fd; 6], [td; 6], ctor, true);
                        let widthless = from_h > to_h && (from_h - to_h) % 720 == 0;
                        for chunk in vals.chunks(6) {
                            if widthless {
                                ex += chunk.len() as u64;
                                continue;
                            }
                            // six angles per compliant() call would hide which one failed: evaluate individually but on one Constraints object
                            for &x_h in chunk {
                                let (f, t, x) = (from_h as i64, to_h as i64, x_h as i64);
                                let want = if f == t {
                                    true
                                } else {
                                    let span = if f < t { (t - f).min(720) } else { (t - f).rem_euclid(720) };
                                    span >= 720 || (x - f).rem_euclid(720) <= span
                                };
                                let xr = (x_h as f64 / 2.0).to_radians();
                                // put the angle on one joint, the centre (always legal) on the others
                                let mut v = c.centers;
                                v[(x_h.rem_euclid(6)) as usize] = xr;
                                let got = c.compliant(&v);
                                n += 1;
                                if want {
                                    acc += 1;
                                }
                                if (x - f).rem_euclid(720) == 0 || (x - t).rem_euclid(720) == 0 {
                                    bnd += 1;
                                }
                                if got != want {
                                    // re-derive through the single-point path for the report
                                    let v = lattice_point(from_h, to_h, x_h, ctor).err().unwrap_or_else(|| {
                                        viol!("compliant() on a vector whose other joints sit at the reported centres", "from={} to={} x={} (half-degrees) ctor={} got={} want={}", from_h, to_h, x_h, ctor, got, want)
                                    });
                                    return Some((Case::Lattice { from_h, to_h, x_h, ctor }, v));
                                }
                            }
                        }
                    }
                }
                counted.fetch_add(n, Ordering::Relaxed);
                excluded.fetch_add(ex, Ordering::Relaxed);
                accepted.fetch_add(acc, Ordering::Relaxed);
                boundary.fetch_add(bnd, Ordering::Relaxed);
                None
            });
            if let Some(f) = r {
                return Err(f);
            }
        }
        let n = counted.load(Ordering::Relaxed);
        ctx.evaluations += n;
        ctx.class_n("lattice:decisions", n);
        ctx.class_n("lattice:expected-accept", accepted.load(Ordering::Relaxed));
        ctx.class_n("lattice:boundary-points", boundary.load(Ordering::Relaxed));
        *ctx.excluded.entry("lattice: width-less wrap-around arc (from>to, from==to mod 360)".into()).or_insert(0) += excluded.load(Ordering::Relaxed);
        ctx.notes.insert("lattice_distinct_points".into(), serde_json::json!(n));
        ctx.distinct_extra += n;
        Ok(())
    }
    fn strategy(&self, _tier: Tier) -> BoxedStrategy<Case> {
        let lim = 4.0 * PI;
        let real = (-lim..lim, 1e-3..(TWO_PI - 1e-3), 0.0..1.0f64, -2i8..=2, -2i8..=2, 0u8..3, (0u8..8, 0u8..8, -3i8..=3)).prop_map(move |(from, w, u, k_angle, k_limits, ctor, (shape, pos, kx))| {
            // shape of the pair
            let (from, to) = match shape {
                0 => (from, from),                                  // equal: unconstrained
                1 => (from, from + TWO_PI + w),                     // span >= 2pi
                2 | 3 | 4 => (from, from + w),                      // ordinary
                5 | 6 => (from, from + w - TWO_PI),                 // wrapping, to < from
                _ => (from, from + w - 2.0 * TWO_PI),               // wrapping, more than a turn below
            };
            // position of the angle relative to the arc [from, from+w]
            let x0 = match pos {
                0 | 1 | 2 => from + u * w,                          // inside
                3 | 4 | 5 => from + w + u * (TWO_PI - w),           // outside
                6 => from + if u < 0.5 { 1e-7 } else { -1e-7 },     // just inside / outside the start
                _ => from + w + if u < 0.5 { 1e-7 } else { -1e-7 }, // just outside / inside the end
            };
            let x = x0 + kx as f64 * TWO_PI;
            Case::Real { from, to, x, k_angle, k_limits, ctor }
        });
        let set = (
            prop::array::uniform6(crate::gen::limit_pair(3.0 * PI)),
            crate::gen::weight_strategy(),
            prop::collection::vec(crate::gen::joints_wide(), 0..6),
        )
            .prop_map(|(p, weight, vectors)| {
                let mut from = [0.0; 6];
                let mut to = [0.0; 6];
                for k in 0..6 {
                    from[k] = p[k].0;
                    to[k] = p[k].1;
                }
                Case::Set { from, to, weight, vectors }
            });
        let lattice = (-288i32..=288, -288i32..=288, -288i32..=288, 0u8..3).prop_map(|(a, b, c, ctor)| Case::Lattice { from_h: a * 5, to_h: b * 5, x_h: c * 5, ctor });
        prop_oneof![6 => real, 3 => set, 1 => lattice].boxed()
    }
    fn check(&self, c: &Case, ctx: &mut Ctx) -> Res {
        match c {
            Case::Lattice { from_h, to_h, x_h, ctor } => {
                match lattice_point(*from_h, *to_h, *x_h, *ctor)? {
                    None => ctx.exclude("width-less wrap-around arc"),
                    Some(_) => {
                        ctx.class("random-lattice-point");
                        ctx.nontrivial();
                    }
                }
                Ok(())
            }
            Case::Real { from, to, x, k_angle, k_limits, ctor } => {
                let g = 1e-9;
                let v = arc_member(*from, *to, *x, g);
                if v == Verdict::Undecided {
                    ctx.exclude("real: inside the 1e-9 guard band / width-less arc");
                    return Ok(());
                }
                let want = v == Verdict::In;
                ctx.class(if from == to {
                    "real:from==to"
                } else if from < to && to - from >= TWO_PI {
                    "real:span>=2pi"
                } else if from < to {
                    "real:ordinary"
                } else {
                    "real:wrapping"
                });
                ctx.class(if want { "real:expected-accept" } else { "real:expected-reject" });
                let cons = build([*from; 6], [*to; 6], *ctor, false);
                let got = cons.compliant(&[*x; 6]);
                ensure!(got == want, "a joint value is accepted exactly when it lies on the arc from 'from' to 'to'", "from={} to={} angle={}: compliant={} expected={}", from, to, x, got, want);
                // whole turns added to the angle
                let xs = *x + *k_angle as f64 * TWO_PI;
                if arc_member(*from, *to, xs, g) != Verdict::Undecided {
                    let got2 = cons.compliant(&[xs; 6]);
                    ensure!(got2 == want, "acceptance is invariant under adding whole turns to the angle", "from={} to={} angle={} + {} turns: compliant={} expected={}", from, to, x, k_angle, got2, want);
                }
                // whole turns added to both limits
                let (f2, t2) = (*from + *k_limits as f64 * TWO_PI, *to + *k_limits as f64 * TWO_PI);
                if arc_member(f2, t2, *x, g) != Verdict::Undecided && (f2 == t2) == (from == to) {
                    let c2 = build([f2; 6], [t2; 6], *ctor, false);
                    let got3 = c2.compliant(&[*x; 6]);
                    ensure!(got3 == want, "acceptance is invariant under adding whole turns to both limits", "from={} to={} shifted by {} turns, angle={}: compliant={} expected={}", from, to, k_limits, x, got3, want);
                }
                ctx.nontrivial();
                Ok(())
            }
            Case::Set { from, to, weight, vectors } => {
                let cons = Constraints::new(*from, *to, *weight);
                // the reported centre of every range is itself accepted
                ensure!(cons.compliant(&cons.centers), "the reported centre of every range is itself accepted", "from={:?} to={:?} centres={:?}", from, to, cons.centers);
                // update_range == new
                // the earlier limits share the lower limit (even joints) or the upper limit (odd joints) with the new ones
                let f0: [f64; 6] = std::array::from_fn(|k| if k % 2 == 0 { from[k] } else { 0.3 });
                let t0: [f64; 6] = std::array::from_fn(|k| if k % 2 == 1 { to[k] } else { 0.1 });
                let mut u = Constraints::new(f0, t0, *weight);
                u.update_range(*from, *to);
                ensure!(u.centers == cons.centers && u.tolerances == cons.tolerances && u.from == cons.from && u.to == cons.to && u.sorting_weight == *weight, "update_range(f,t) is equivalent to new(f,t,w)", "{:?} vs {:?}", u, cons);
                // filter == elementwise compliant, and compliant == conjunction of the per-joint oracle
                let filtered = cons.filter(vectors);
                let expect: Vec<[f64; 6]> = vectors.iter().filter(|v| cons.compliant(v)).cloned().collect();
                ensure!(filtered == expect, "filter(v) keeps exactly the compliant vectors, in order", "filtered={:?} expected={:?}", filtered, expect);
                for v in vectors {
                    match arc_member6(from, to, v, 1e-9) {
                        Verdict::Undecided => ctx.exclude("set: some joint inside the guard band"),
                        w => {
                            let got = cons.compliant(v);
                            ensure!(got == (w == Verdict::In), "a joint vector is accepted exactly when every joint lies on its arc", "from={:?} to={:?} v={:?}: compliant={} expected={:?}", from, to, v, got, w);
                            ctx.class(if got { "set:vector-accepted" } else { "set:vector-rejected" });
                        }
                    }
                }
                // vectors that differ from the (accepted) centres in one joint only: that joint alone decides, for compliant and for filter alike
                let probes: Vec<[f64; 6]> = vectors
                    .iter()
                    .enumerate()
                    .map(|(n, v)| {
                        let mut w = cons.centers;
                        w[n % 6] = v[n % 6];
                        w
                    })
                    .collect();
                let kept = cons.filter(&probes);
                let mut expect_kept = Vec::new();
                for (n, w) in probes.iter().enumerate() {
                    let k = n % 6;
                    match arc_member(from[k], to[k], w[k], 1e-9) {
                        Verdict::Undecided => {
                            // undecided by the oracle: follow compliant (filter must agree with it in any case)
                            if cons.compliant(w) {
                                expect_kept.push(*w);
                            }
                        }
                        verdict => {
                            let got = cons.compliant(w);
                            ensure!(got == (verdict == Verdict::In), "a joint vector is accepted exactly when every joint lies on its arc", "centres with joint {} = {}: from={} to={}: compliant={} expected={:?}", k + 1, w[k], from[k], to[k], got, verdict);
                            if verdict == Verdict::In {
                                expect_kept.push(*w);
                            }
                            ctx.class(if got { "set:single-joint probe accepted" } else { "set:single-joint probe rejected" });
                        }
                    }
                }
                ensure!(kept == expect_kept, "filter(v) keeps exactly the compliant vectors, in order", "single-joint probes around the centres: filtered={:?} expected={:?} (from={:?} to={:?})", kept, expect_kept, from, to);
                ctx.nontrivial();
                Ok(())
            }
        }
    }
}
