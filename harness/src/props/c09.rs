//! C09 — tool, base and frame wrappers compose transforms consistently in both directions.

use crate::engine::*;
use crate::gen::*;
use crate::glue::*;
use crate::model::*;
use crate::props::c01::{call_entry, ENTRY_NAMES};
use crate::props::c04::{check_order, reference};
use crate::stack::*;
use crate::{ensure, viol};
use proptest::prelude::*;
use rs_opw_kinematics::kinematic_traits::Kinematics;
use rs_opw_kinematics::tool::{Gantry, LinearAxis};
use serde::{Deserialize, Serialize};
use std::sync::Arc;

pub struct C09;

#[derive(Clone, Debug, Serialize, Deserialize)]
pub enum Case {
    Stack {
        robot: RobotSpec,
        layers: Vec<Layer>,
        j: [f64; 6],
        prev: PrevGen,
        entry: u8,
        j6: f64,
        /// optional limits of the wrapped robot: whole-circle ranges (nothing is filtered) whose centres are away from zero,
        /// so that the CONSTRAINT_CENTERED marker and the sorting weight mean something through the stack
        #[serde(default)]
        limits: Option<LimitSpec>,
    },
    Linear { robot: RobotSpec, layers: Vec<Layer>, j: [f64; 6], axis: u8, distance: f64, base: IsoSpec },
    Gantry { robot: RobotSpec, layers: Vec<Layer>, j: [f64; 6], t: [f64; 3], base: IsoSpec },
}

fn axialize(layers: &[Layer]) -> Vec<Layer> {
    layers
        .iter()
        .map(|l| match l {
            Layer::Tool(t) => Layer::Tool(IsoSpec { t: [0.0, 0.0, t.t[2]], axis: [0.0, 0.0, 1.0], angle: t.angle }),
            Layer::Frame(t) => Layer::Frame(IsoSpec { t: [0.0, 0.0, t.t[2]], axis: [0.0, 0.0, 1.0], angle: t.angle }),
            other => *other,
        })
        .collect()
}

fn iso_close(a: &Iso, b: &Iso, tol_p: f64, tol_a: f64) -> Result<(), String> {
    let dp = dist(&a.p, &b.p);
    let da = rot_angle(&a.r, &b.r);
    if dp <= tol_p && da <= tol_a {
        Ok(())
    } else {
        Err(format!("dp={:e} (tol {:e}) dang={:e} (tol {:e}); got p={:?} want p={:?}", dp, tol_p, da, tol_a, a.p, b.p))
    }
}

fn check_stack(robot: &RobotSpec, layers_in: &[Layer], j: &[f64; 6], prev: &PrevGen, entry: u8, j6: f64, limits: &Option<LimitSpec>, ctx: &mut Ctx, matrix: bool) -> Res {
    let r = robot;
    let entry = entry % 4;
    let what = ENTRY_NAMES[entry as usize];
    let layers = if entry >= 2 { axialize(layers_in) } else { layers_in.to_vec() };
    let name = stack_name(&layers);
    let inner = Arc::new(match limits {
        Some(l) => opw_c(r, l.build()),
        None => opw(r),
    });
    let kin = build_stack(inner.clone(), &layers);
    let size = r.reach() + size_of(&layers);
    let tol_p9 = 1e-9 * (1.0 + size);

    // forward
    let tcp_m = model_forward(r, &layers, j);
    let f = no_panic(|| kin.forward(j)).map_err(|m| viol!("no panic", "forward: {}", m))?;
    let f = from_na(&f).ok_or_else(|| viol!("forward is finite", "{:?}", f))?;
    iso_close(&f, &tcp_m, tol_p9, 1e-9).map_err(|m| viol!("forward pose is base * robot * tool (frame acts like a tool)", "stack {}: {}", name, m))?;
    if matrix {
        ctx.class(&format!("matrix:{}:forward", layers[0].name()));
    }

    // link poses
    let links_m = model_links(r, &layers, j);
    let links = no_panic(|| kin.forward_with_joint_poses(j)).map_err(|m| viol!("no panic", "forward_with_joint_poses: {}", m))?;
    for i in 0..6 {
        let l = from_na(&links[i]).ok_or_else(|| viol!("link poses are finite", "{:?}", links[i]))?;
        iso_close(&l, &links_m[i], tol_p9, 1e-9).map_err(|m| {
            viol!("per-link poses: unchanged by a tool, pre-multiplied by a base, only the last one moved by a frame", "stack {} link {}: {}", name, i + 1, m)
        })?;
    }
    if !layers.iter().any(|l| matches!(l, Layer::Tool(_))) {
        let l5 = from_na(&links[5]).unwrap();
        iso_close(&l5, &f, tol_p9, 1e-9).map_err(|m| viol!("the last link pose equals forward for base and frame", "stack {}: {}", name, m))?;
    }
    if matrix {
        ctx.class(&format!("matrix:{}:forward_with_joint_poses", layers[0].name()));
    }

    // singularity / constraints delegation
    let s_w = kin.kinematic_singularity(j);
    let s_i = inner.kinematic_singularity(j);
    ensure!(s_w == s_i, "singularity report is that of the wrapped robot", "stack {}: {:?} vs {:?}", name, s_w, s_i);
    match (limits, kin.constraints()) {
        (None, None) => {}
        (Some(l), Some(c)) => {
            ensure!(c.from == l.from && c.to == l.to && c.sorting_weight == l.weight, "limits reported are those of the wrapped robot", "stack {}: {:?} vs {:?}", name, c, l);
            ctx.class("wrapped robot has limits (whole-circle, off-centre)");
        }
        (l, c) => return Err(viol!("limits reported are those of the wrapped robot", "stack {}: wrapped robot has {:?}, the stack reports {:?}", name, l, c.as_ref().map(|c| (c.from, c.to)))),
    }
    if matrix {
        ctx.class(&format!("matrix:{}:kinematic_singularity", layers[0].name()));
        ctx.class(&format!("matrix:{}:constraints", layers[0].name()));
    }

    // inverse: every answer maps back through the same stack's forward onto the requested pose
    let na = to_na(&tcp_m);
    let p = prev.resolve(Some(*j));
    let sols = call_entry(kin.as_ref(), entry, &na, &p, j6).map_err(|m| viol!("no panic", "{}: {}", what, m))?;
    let tol_p = back_tol_p(size, &layers);
    let tol_a = 1e-6 + 1e-9;
    for s in &sols {
        ensure!(s.iter().all(|x| x.is_finite()), "answers are finite", "{:?}", s);
        let back = model_forward(r, &layers, s);
        let dp = dist(&back.p, &tcp_m.p);
        ensure!(dp <= tol_p, "every inverse answer maps back through the stack's forward onto the requested pose (position)", "{} through {}: |dp|={:e} tol {:e}, answer {:?}", what, name, dp, tol_p, s);
        if entry < 2 {
            let da = rot_angle(&back.r, &tcp_m.r);
            ensure!(da <= tol_a, "every inverse answer maps back through the stack's forward onto the requested pose (orientation)", "{} through {}: dang={:e}, answer {:?}", what, name, da, s);
        }
    }
    // each entry point keeps its own contract through the stack
    match entry {
        1 | 3 => {
            let rf = reference(&p, limits);
            check_order(&sols, &rf, limits, &format!("{} through {}", what, name))?;
            if p[0].is_nan() && limits.is_some() {
                ctx.class("CONSTRAINT_CENTERED marker through a stack whose robot has off-centre limits");
            }
            if entry == 3 {
                // (with the CONSTRAINT_CENTERED marker "previous" means the constraint centres: J6 may be the marker's 0.0 or the centre of the J6 range)
                let centre6 = if p[0].is_nan() { limits.as_ref().map(|l| crate::props::c04::oracle_centres(l)[5]) } else { None };
                for s in &sols {
                    ensure!(s[5].to_bits() == p[5].to_bits() || (s[5] == 0.0 && p[5] == 0.0) || centre6.map(|c6| (s[5] - c6).abs() <= 1e-9).unwrap_or(false), "5-DOF variants return the caller's J6 through the stack", "{} through {}: J6={} previous J6={}", what, name, s[5], p[5]);
                }
            }
        }
        2 => {
            for s in &sols {
                ensure!(s[5].to_bits() == j6.to_bits() || (s[5] == 0.0 && j6 == 0.0), "5-DOF variants return the caller's J6 through the stack", "{} through {}: J6={} requested {}", what, name, s[5], j6);
            }
        }
        _ => {}
    }
    // the answers are those of the wrapped robot for the un-wrapped request (same entry point): delegation to the right inner method
    let inner_req = to_na(&flange_request(&layers, &tcp_m));
    let direct = call_entry(inner.as_ref(), entry, &inner_req, &p, j6).map_err(|m| viol!("no panic", "inner {}: {}", what, m))?;
    // (compared as sets over the answers outside the singularity margins: borderline branches may flip with the 1e-16 difference of the request)
    let good = |s: &[f64; 6]| crate::props::c02::margins_ok(r, s).is_ok();
    for a in sols.iter().filter(|s| good(s)) {
        let found = direct.iter().any(|b| joints_circ_dist(a, b) <= 1e-6);
        ensure!(found, "each wrapper entry point delegates to the same entry point of the wrapped robot", "{} through {}: answer {:?} is not an answer of the inner robot's {} for the un-wrapped request ({:?})", what, name, a, what, direct);
    }
    for b in direct.iter().filter(|s| good(s)) {
        let found = sols.iter().any(|a| joints_circ_dist(a, b) <= 1e-6);
        ensure!(found, "each wrapper entry point delegates to the same entry point of the wrapped robot", "{} through {}: inner answer {:?} is missing from the wrapper's answer {:?}", what, name, b, sols);
    }
    if matrix {
        ctx.class(&format!("matrix:{}:{}", layers[0].name(), what));
    }
    ctx.class(&format!("depth:{}", layers.len()));
    ctx.class(&format!("entry:{}", what));
    if !sols.is_empty() {
        ctx.nontrivial();
    }
    Ok(())
}

impl Property for C09 {
    type Case = Case;
    fn id(&self) -> &'static str {
        "C09"
    }
    fn rule(&self) -> String {
        "stacks of depth 1..3 over {Tool, Base, Frame} in any order with random isometries (axial tools/frames for the 5-DOF entry points) x robots (dof 6, all conventions) x joint vectors x previous x four inverse entry points + forward + link poses + singularity + constraints; one stack in three wraps a robot with whole-circle limits whose centres are off zero (weights 0, 1, between), so that the CONSTRAINT_CENTERED marker and the ordering contract are observable through the stack; \
         the delegation matrix 3 wrapper types x 8 methods is enumerated in every run with fixed non-trivial transforms over the catalogue robots (per-cell counts under classes matrix:*); LinearAxis (axis 0..2, +-5 m) and Gantry through the hook constructors. \
         Non-trivial: the inverse call returned at least one answer (each mapped back through the hand-composed forward) or a LinearAxis/Gantry case."
            .into()
    }
    fn assumptions(&self) -> Vec<String> {
        vec![
            "oracle: fold of B*X / X*T / X*F around model M_6(q); tolerance 1e-9*(1+size) for forward, C01 tolerances for inverse".into(),
            "LinearAxis with axis >= 3 panics by documented design and is not generated".into(),
        ]
    }
    fn plan(&self, tier: Tier) -> Plan {
        Plan { workers: tier.pick(4, 16), cases_per_worker: tier.pick(50_000, 300_000), max_shrink_iters: 3000 }
    }
    fn selftest(&self) -> Result<serde_json::Value, String> {
        crate::selftest::model_vs_recorded()
    }
    fn enumerate(&self, _tier: Tier, ctx: &mut Ctx) -> Result<(), (Case, Violation)> {
        let t1 = IsoSpec { t: [0.1, -0.2, 0.3], axis: [1.0, 2.0, -1.0], angle: 0.7 };
        let t2 = IsoSpec { t: [-0.3, 0.05, 0.2], axis: [0.0, 1.0, 0.3], angle: -1.1 };
        let js = [[0.3, -0.4, 0.5, 0.6, 0.7, -0.8], [-1.0, 0.9, -0.3, 2.0, -1.2, 0.4], [2.5, 0.2, 0.4, -2.2, 0.5, 3.0]];
        for (_, robot) in catalogue() {
            for (wi, iso) in [(0, t1), (1, t2), (2, t1)] {
                let layer = match wi {
                    0 => Layer::Tool(iso),
                    1 => Layer::Base(iso),
                    _ => Layer::Frame(iso),
                };
                for j in &js {
                    for entry in 0..4u8 {
                        for prev in [PrevGen::Source, PrevGen::Given { j: [0.5, -0.5, 0.25, 1.0, -1.0, 2.0] }] {
                            ctx.evaluations += 1;
                            let layers = vec![layer];
                            if let Err(v) = check_stack(&robot, &layers, j, &prev, entry, 0.37, &None, ctx, true) {
                                return Err((Case::Stack { robot, layers, j: *j, prev, entry, j6: 0.37, limits: None }, v));
                            }
                            ctx.distinct_extra += 1;
                        }
                    }
                }
            }
        }
        ctx.notes.insert("delegation_matrix".into(), serde_json::json!({"wrappers": ["Tool", "Base", "Frame"], "methods": ["inverse", "inverse_continuing", "inverse_5dof", "inverse_continuing_5dof", "forward", "forward_with_joint_poses", "constraints", "kinematic_singularity"], "exhaustive": true}));
        Ok(())
    }
    fn strategy(&self, _tier: Tier) -> BoxedStrategy<Case> {
        let robot = prop_oneof![3 => robot_sane(DofChoice::Six), 1 => robot_negative(DofChoice::Six)];
        let stack = (
            robot.clone(),
            prop::collection::vec(prop_oneof![5 => tbf_layer(1.0), 1 => tbf_layer(100.0)], 1..4),
            joints_mixed(),
            prev_2pi(),
            0u8..4,
            prop_oneof![1 => Just(0.0), 3 => -10.0..10.0f64],
            prop_oneof![
                2 => Just(None),
                1 => (prop::array::uniform6(-3.0..3.0f64), prop::array::uniform6(3.2..4.5f64), weight_strategy()).prop_map(|(c, h, weight)| Some(LimitSpec {
                    from: std::array::from_fn(|k| c[k] - h[k]),
                    to: std::array::from_fn(|k| c[k] + h[k]),
                    weight,
                })),
            ],
        )
            .prop_map(|(robot, layers, j, prev, entry, j6, limits)| Case::Stack { robot, layers, j, prev, entry, j6, limits });
        let linear = (robot.clone(), prop::collection::vec(tbf_layer(1.0), 0..3), joints_mixed(), 0u8..3, -5.0..5.0f64, iso_strategy(5.0))
            .prop_map(|(robot, layers, j, axis, distance, base)| Case::Linear { robot, layers, j, axis, distance, base });
        let gantry = (robot, prop::collection::vec(tbf_layer(1.0), 0..3), joints_mixed(), prop::array::uniform3(-5.0..5.0f64), iso_strategy(5.0))
            .prop_map(|(robot, layers, j, t, base)| Case::Gantry { robot, layers, j, t, base });
        prop_oneof![10 => stack, 1 => linear, 1 => gantry].boxed()
    }
    fn check(&self, c: &Case, ctx: &mut Ctx) -> Res {
        match c {
            Case::Stack { robot, layers, j, prev, entry, j6, limits } => {
                let order: String = layers.iter().map(|l| &l.name()[..1]).collect();
                ctx.class(&format!("order:{}", order));
                check_stack(robot, layers, j, prev, *entry, *j6, limits, ctx, false)
            }
            Case::Linear { robot, layers, j, axis, distance, base } => {
                let kin = build_stack(Arc::new(opw(robot)), layers);
                let la = LinearAxis::verif_new(kin, (*axis % 3) as u32, to_na(&base.iso()));
                let got = no_panic(|| la.forward(*distance, j)).map_err(|m| viol!("no panic", "LinearAxis::forward: {}", m))?;
                let got = from_na(&got).ok_or_else(|| viol!("finite", "{:?}", got))?;
                let mut t = [0.0; 3];
                t[(*axis % 3) as usize] = *distance;
                let want = base.iso().mul(&Iso::new(ident(), t)).mul(&model_forward(robot, layers, j));
                let size = robot.reach() + size_of(layers) + norm(&base.t) + distance.abs();
                iso_close(&got, &want, 1e-9 * (1.0 + size), 1e-9).map_err(|m| viol!("LinearAxis forward is base * T(axis*d) * robot forward", "axis {} d={}: {}", axis % 3, distance, m))?;
                ctx.class("linear-axis");
                ctx.nontrivial();
                Ok(())
            }
            Case::Gantry { robot, layers, j, t, base } => {
                let kin = build_stack(Arc::new(opw(robot)), layers);
                let g = Gantry::verif_new(kin, to_na(&base.iso()));
                let tr = nalgebra::Translation3::new(t[0], t[1], t[2]);
                let got = no_panic(|| g.forward(&tr, j)).map_err(|m| viol!("no panic", "Gantry::forward: {}", m))?;
                let got = from_na(&got).ok_or_else(|| viol!("finite", "{:?}", got))?;
                let want = base.iso().mul(&Iso::new(ident(), *t)).mul(&model_forward(robot, layers, j));
                let size = robot.reach() + size_of(layers) + norm(&base.t) + norm(t);
                iso_close(&got, &want, 1e-9 * (1.0 + size), 1e-9).map_err(|m| viol!("Gantry forward is base * T(t) * robot forward", "t={:?}: {}", t, m))?;
                ctx.class("gantry");
                ctx.nontrivial();
                Ok(())
            }
        }
    }
}
