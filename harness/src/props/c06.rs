//! C06 — 5-DOF inverse kinematics keeps the tool point and axis exact and J6 as requested.

use crate::engine::*;
use crate::gen::*;
use crate::glue::*;
use crate::model::*;
use crate::props::c01::{call_entry, ENTRY_NAMES};
use crate::props::c02::margins_ok;
use crate::stack::*;
use crate::{ensure, viol};
use proptest::prelude::*;
use serde::{Deserialize, Serialize};
use std::sync::Arc;

pub struct C06;

#[derive(Clone, Debug, Serialize, Deserialize)]
pub struct Case {
    pub robot: RobotSpec,
    pub pose: PoseGen,
    pub prev: PrevGen,
    pub entry: u8,
    pub j6: f64,
    /// axial tools / frames and arbitrary bases
    pub layers: Vec<Layer>,
    /// optional joint limits: J1..J5 whole circle, J6 the window centre +- half width (centre within +-2.5 rad)
    #[serde(default)]
    pub j6_window: Option<(LimitSpec, f64, f64)>,
    /// call history: the same robot is first asked for the same pose with this other J6 (answers ignored)
    #[serde(default)]
    pub earlier_j6: Option<f64>,
}

impl Property for C06 {
    type Case = Case;
    fn id(&self) -> &'static str {
        "C06"
    }
    fn rule(&self) -> String {
        "robots dof 5 and 6 (sane + negative families) x poses (stack forward of a joint vector; raw SE(3); singular classes) x j6 / previous (finite, |j6|<=10) x entry points (all four on dof-5 robots, the two 5-DOF ones on dof-6 robots) \
         x {bare, axial Tool/Frame, arbitrary Base, combinations up to depth 2} x {no limits, limits with J1..J5 whole-circle and an off-centre J6 window (then previous may be the CONSTRAINT_CENTERED marker, whose J6 element is 0.0)}. One case in four has a call history (the same pose solved just before with another J6). Non-trivial: at least one answer returned. Distinct = distinct serialized cases."
            .into()
    }
    fn assumptions(&self) -> Vec<String> {
        vec![
            "tool point and tool axis compared through the hand-composed stack around oracle M; 1e-6 + 1e-9*(1+size) m, 1e-6 + 1e-9 rad".into(),
            "J6 compared bit-exactly with the caller's value (explicit j6; previous[5]; 0.0 for plain inverse on a dof-5 robot; 0.0 for the CONSTRAINT_CENTERED sentinel without limits)".into(),
            "'originating J1..J5 among the answers' asserted outside the C02 singularity margins".into(),
        ]
    }
    fn plan(&self, tier: Tier) -> Plan {
        Plan { workers: tier.pick(4, 16), cases_per_worker: tier.pick(100_000, 600_000), max_shrink_iters: 3000 }
    }
    fn selftest(&self) -> Result<serde_json::Value, String> {
        crate::selftest::model_vs_recorded()
    }
    fn strategy(&self, _tier: Tier) -> BoxedStrategy<Case> {
        (
            prop_oneof![6 => robot_sane(DofChoice::Five), 6 => robot_sane(DofChoice::Six), 2 => robot_negative(DofChoice::Both), 1 => robot_degenerate(DofChoice::Both)],
            prop_oneof![
                10 => joints_mixed().prop_map(|j| PoseGen::Fk { j }),
                1 => (joints_uniform(), -1i8..=1, small_delta()).prop_map(|(j, k, delta)| PoseGen::FkWrist { j, k, delta }),
                2 => iso_strategy(2.0).prop_map(|iso| PoseGen::Raw { iso }),
            ],
            prev_any(),
            0u8..4,
            prop_oneof![1 => Just(0.0), 4 => -10.0..10.0f64],
            prop_oneof![3 => Just(vec![]), 4 => prop::collection::vec(axial_layer(1.0), 1..3)],
            prop_oneof![3 => Just(None), 1 => (limits_wide(), -2.5..2.5f64, 0.3..2.5f64).prop_map(Some)],
            prop_oneof![3 => Just(None), 1 => (-3.0..3.0f64).prop_map(Some)],
        )
            .prop_map(|(robot, pose, prev, entry, j6, layers, j6_window, earlier_j6)| {
                // with limits, mostly ask for a J6 inside the window (otherwise nothing is returned and nothing can be compared)
                let j6 = match &j6_window {
                    Some((_, c6, w)) if (j6 * 7.0).fract().abs() < 0.8 => c6 + w * (j6 / 10.0),
                    _ => j6,
                };
                Case { robot, pose, prev, entry, j6, layers, j6_window, earlier_j6 }
            })
            .boxed()
    }
    fn check(&self, c: &Case, ctx: &mut Ctx) -> Res {
        let r = &c.robot;
        let mut entry = c.entry % 4;
        if r.dof == 6 && entry < 2 {
            entry += 2; // on a 6-DOF robot only the 5-DOF solvers are in scope
        }
        let what = ENTRY_NAMES[entry as usize];
        ctx.class(&format!("dof{}:{}", r.dof, what));
        ctx.class(&format!("stack:{}", stack_name(&c.layers)));
        let kin = match &c.j6_window {
            Some((l, c6, w)) => {
                let (mut from, mut to) = (l.from, l.to);
                from[5] = c6 - w;
                to[5] = c6 + w;
                ctx.class("limits: J6 window");
                build_stack(Arc::new(opw_c(r, rs_opw_kinematics::constraints::Constraints::new(from, to, l.weight))), &c.layers)
            }
            None => build_stack(Arc::new(opw(r)), &c.layers),
        };
        // requested TCP pose: stack forward of the source joints, or the raw pose
        let src = c.pose.source_joints(r);
        let tcp = match src {
            Some(j) => model_forward(r, &c.layers, &j),
            None => c.pose.pose(r).unwrap(),
        };
        let na = to_na(&tcp);
        let prev = c.prev.resolve(src);
        if let Some(e6) = c.earlier_j6 {
            // history: the same pose was solved just before with another J6 (explicitly and, for the continuing entry, through previous)
            let mut p2 = prev;
            p2[5] = e6;
            let _ = call_entry(kin.as_ref(), 2, &na, &p2, e6).map_err(|m| viol!("no panic", "inverse_5dof (earlier call): {}", m))?;
            if entry % 2 == 1 && !p2[0].is_nan() {
                let _ = call_entry(kin.as_ref(), 3, &na, &p2, e6).map_err(|m| viol!("no panic", "inverse_continuing_5dof (earlier call): {}", m))?;
            }
            ctx.class("history:the same pose was solved with another J6 just before");
        }
        let sols = call_entry(kin.as_ref(), entry, &na, &prev, c.j6).map_err(|m| viol!("no panic", "{}: {}", what, m))?;
        ctx.class(&format!("answers:{}", sols.len().min(9)));

        let want_j6 = match entry {
            0 => 0.0,
            2 => c.j6,
            _ => prev[5],
        };
        let size = r.reach() + size_of(&c.layers);
        let tol_p = back_tol_p(size, &c.layers);
        let tol_a = 1e-6 + 1e-9;
        // With the CONSTRAINT_CENTERED marker (outside the property's "finite previous vectors") the documentation says previous means
        // the constraint centres: J6 may be the marker's own sixth element (0.0) or the centre of the J6 range.
        let sentinel_j6_centre: Option<f64> = match (&c.prev, &c.j6_window, entry) {
            (PrevGen::Centered, Some((_, c6, _)), 1 | 3) => Some(*c6),
            _ => None,
        };
        for s in &sols {
            ensure!(s.iter().all(|x| x.is_finite()), "answers are finite", "{}: {:?}", what, s);
            ensure!(
                s[5].to_bits() == want_j6.to_bits() || (s[5] == 0.0 && want_j6 == 0.0) || sentinel_j6_centre.map(|c6| (s[5] - c6).abs() <= 1e-9).unwrap_or(false),
                "joint 6 carries exactly the caller's value",
                "{}: J6 = {} but the caller's value is {} (answer {:?}) [stack {}]",
                what,
                s[5],
                want_j6,
                s,
                stack_name(&c.layers)
            );
            let got = model_forward(r, &c.layers, s);
            let dp = dist(&got.p, &tcp.p);
            ensure!(dp <= tol_p, "the tool point coincides with the requested one (1 um)", "{}: |dp| = {:e} tol {:e}; answer {:?} [stack {}]", what, dp, tol_p, s, stack_name(&c.layers));
            let da = vec_angle(&got.z_axis(), &tcp.z_axis());
            ensure!(da <= tol_a, "the tool axis coincides with the requested one (1 urad)", "{}: axis angle = {:e} tol {:e}; answer {:?} [stack {}]", what, da, tol_a, s, stack_name(&c.layers));
        }
        // originating J1..J5 among the answers (outside the singularity margins)
        // (completeness is a statement about arms of ordinary proportions: with link lengths of 1e-9 m next to offsets of 1e3 m the
        // closed form cannot resolve the arm angles in f64; such degenerate robots only take part in the soundness clauses above)
        let (_, kk) = r.psi3_k();
        let well_scaled = r.c2.abs() > 1e-3 * r.reach() && kk > 1e-3 * r.reach();
        if !well_scaled && src.is_some() {
            ctx.exclude("completeness not asserted for robots whose arm links are below 1e-3 of the overall size");
        }
        // with limits the answers outside them are withheld (C08): completeness is asserted when the caller's J6 is inside its window
        let j6_admitted = match &c.j6_window {
            Some((_, c6, w)) => circ_dist(want_j6, *c6) <= w - 1e-9,
            None => true,
        };
        // (with the marker, an implementation that takes the centre as J6 always has an admitted J6; one that takes the marker's 0.0 may
        // not: completeness is then asserted only when 0.0 is admitted as well, which holds for both readings)
        if !j6_admitted && src.is_some() {
            ctx.exclude("the caller's J6 is outside the J6 limits: nothing need be returned");
        }
        if let (Some(j), true) = (src, well_scaled && j6_admitted) {
            match margins_ok(r, &j) {
                Ok(()) => {
                    let found = sols.iter().any(|s| (0..5).all(|t| circ_dist(s[t], j[t]) <= 1e-6));
                    ensure!(found, "the originating J1..J5 is among the answers when it is non-singular (so a 5-DOF robot does not return nothing)", "{}: J1..J5 of {:?} not in {:?} [stack {}]", what, j, sols, stack_name(&c.layers));
                    ctx.class("originating-found");
                }
                Err(why) => ctx.exclude(why),
            }
        }
        if !sols.is_empty() {
            ctx.nontrivial();
        }
        Ok(())
    }
}
