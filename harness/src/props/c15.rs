//! C15 — Jacobian equals the geometric one; velocities/torques are its inverse/transpose.

use crate::engine::*;
use crate::gen::*;
use crate::glue::*;
use crate::model::*;
use crate::stack::*;
use crate::{ensure, viol};
use nalgebra::{Matrix6, Vector6};
use proptest::prelude::*;
use rs_opw_kinematics::jacobian::Jacobian;
use rs_opw_kinematics::tool::{Base, Tool};
use serde::{Deserialize, Serialize};
use std::sync::Arc;

pub struct C15;

#[derive(Clone, Debug, Serialize, Deserialize)]
pub struct Case {
    pub robot: RobotSpec,
    pub tool: Option<IsoSpec>,
    pub base: Option<IsoSpec>,
    pub j: [f64; 6],
    /// 0: 1e-7, 1: 1e-6, 2: 1e-5
    pub eps: u8,
    pub twist: [f64; 6],
    /// optional joint limits given as distances below / above the joint vector (0 = the joint sits exactly on that limit)
    #[serde(default)]
    pub window: Option<([f64; 6], [f64; 6])>,
    /// call history: a Jacobian of this other robot at the same joints, and one of the same robot with another step, are computed first
    #[serde(default)]
    pub other: Option<RobotSpec>,
    /// length unit of the model: 1 = metres, 1000 = the same robot, tool and base written in millimetres (lengths are already scaled in `robot`, `tool`, `base`)
    #[serde(default = "one")]
    pub unit: f64,
    /// the robot is wrapped in a parallelogram coupling (driven, coupled, scaling) below tool and base
    #[serde(default)]
    pub para: Option<(u8, u8, f64)>,
}

fn one() -> f64 {
    1.0
}

/// The Jacobian with its linear rows expressed in metres (divided by the length unit of the model).
fn balanced(j: &Matrix6<f64>, unit: f64) -> Matrix6<f64> {
    let mut m = *j;
    for r in 0..3 {
        for c in 0..6 {
            m[(r, c)] /= unit;
        }
    }
    m
}

/// Geometric Jacobian from the model: column i = sign_i * (a_i x (p_tcp - o_i); a_i).
fn geometric(r: &RobotSpec, tool: &Option<IsoSpec>, base: &Option<IsoSpec>, j: &[f64; 6]) -> Matrix6<f64> {
    let b = base.map(|b| b.iso()).unwrap_or(Iso::identity());
    let links: Vec<Iso> = r.links(j).iter().map(|l| b.mul(l)).collect();
    let mut tcp = links[5];
    if let Some(t) = tool {
        tcp = tcp.mul(&t.iso());
    }
    // joint i rotates about: z of frame 0 (base) for J1, y of frame 1 for J2, y of frame 2 for J3, z of frame 3 for J4, y of frame 4 for J5, z of frame 5 for J6,
    // where "frame k" is the link frame *before* the joint's own rotation; its axis is unchanged by that rotation, so the link frame after it can be used.
    let axes_local: [V3; 6] = [[0.0, 0.0, 1.0], [0.0, 1.0, 0.0], [0.0, 1.0, 0.0], [0.0, 0.0, 1.0], [0.0, 1.0, 0.0], [0.0, 0.0, 1.0]];
    let mut m = Matrix6::zeros();
    for i in 0..6 {
        let a = mv(&links[i].r, &axes_local[i]);
        let o = links[i].p;
        let lin = cross(&a, &sub(&tcp.p, &o));
        let s = r.signs[i] as f64;
        for k in 0..3 {
            m[(k, i)] = s * lin[k];
            m[(k + 3, i)] = s * a[k];
        }
    }
    m
}

impl Property for C15 {
    type Case = Case;
    fn id(&self) -> &'static str {
        "C15"
    }
    fn rule(&self) -> String {
        "robots (bare, Tool, Base, Tool over Base, one in four on top of a parallelogram coupling with scaling 1, -1, 0.5 or random; all sign/offset conventions; sign 0 on J6 for dof 5) x joint vectors x differencing step in {1e-7,1e-6,1e-5} x twists/wrenches (|v|,|w| < 3) x length unit of the model (metres, or the same cell written in millimetres). \
         Non-trivial: condition number of the geometric Jacobian below 1e4 and (a wrapper present or a non-default sign pattern)."
            .into()
    }
    fn assumptions(&self) -> Vec<String> {
        vec![
            "geometric Jacobian built from the model link frames (axis x lever arm, axis), signed by the joint sign corrections".into(),
            "|J_num - J_geo|_max <= 2*eps*(1+R) + 20*1e-15*(1+R)/eps (forward difference truncation + cancellation)".into(),
            "the numeric matrix is read through the public API: torques_from_vector(e_r) is row r".into(),
        ]
    }
    fn plan(&self, tier: Tier) -> Plan {
        Plan { workers: tier.pick(4, 16), cases_per_worker: tier.pick(50_000, 200_000), max_shrink_iters: 3000 }
    }
    fn selftest(&self) -> Result<serde_json::Value, String> {
        crate::selftest::model_vs_recorded()
    }
    fn strategy(&self, _tier: Tier) -> BoxedStrategy<Case> {
        (
            prop_oneof![4 => robot_sane(DofChoice::Both), 1 => robot_negative(DofChoice::Six)],
            prop_oneof![1 => Just(None), 1 => iso_strategy(0.5).prop_map(Some)],
            prop_oneof![1 => Just(None), 1 => iso_strategy(2.0).prop_map(Some)],
            joints_uniform(),
            0u8..3,
            prop::array::uniform6(-3.0..3.0f64),
            prop_oneof![2 => Just(None), 1 => (prop::array::uniform6(prop_oneof![1 => Just(0.0), 1 => Just(1e-6), 3 => 0.01..2.0f64]), prop::array::uniform6(prop_oneof![1 => Just(0.0), 1 => Just(1e-6), 3 => 0.01..2.0f64])).prop_map(Some)],
            other_robot(DofChoice::Six, false),
            (prop_oneof![4 => Just(1.0f64), 1 => Just(1000.0f64)], prop_oneof![3 => Just(None), 1 => (0u8..6, 1u8..6, prop_oneof![Just(1.0), Just(-1.0), Just(0.5), -2.0..2.0f64]).prop_map(|(d, o, s)| Some((d, (d + o) % 6, s)))]),
        )
            .prop_map(|(robot, tool, base, j, eps, mut twist, window, other, (unit, para))| {
                let other = resolve_other(&robot, other, false);
                // the same cell written in another length unit (millimetres): every length and the linear part of the twist scale
                let sc = |mut r: RobotSpec| {
                    for x in [&mut r.a1, &mut r.a2, &mut r.b, &mut r.c1, &mut r.c2, &mut r.c3, &mut r.c4] {
                        *x *= unit;
                    }
                    r
                };
                let sci = |mut t: IsoSpec| {
                    for x in t.t.iter_mut() {
                        *x *= unit;
                    }
                    t
                };
                for x in twist.iter_mut().take(3) {
                    *x *= unit;
                }
                let (robot, other, tool, base) = (sc(robot), other.map(sc), tool.map(sci), base.map(sci));
                Case { robot, tool, base, j, eps, twist, window, other, unit, para }
            })
            .boxed()
    }
    fn check(&self, c: &Case, ctx: &mut Ctx) -> Res {
        let r = &c.robot;
        let eps = [1e-7, 1e-6, 1e-5][(c.eps % 3) as usize];
        let reach = r.reach() + c.tool.map(|t| norm(&t.t)).unwrap_or(0.0) + c.base.map(|t| norm(&t.t)).unwrap_or(0.0);
        // (a coupling moves two joints per unit of the driven one: first and second derivatives grow by (1 + |s|) and its square)
        let couple = c.para.map(|p| (1.0 + p.2.abs()).powi(2)).unwrap_or(1.0);
        let tol = (2.0 * eps * (1.0 + reach) + 20.0 * 1e-15 * (1.0 + reach) / eps) * couple;
        // with a parallelogram coupling q'[coupled] = q[coupled] - s q[driven] the chain rule gives column(driven) = inner column(driven) - s * inner column(coupled)
        let jgeo = match c.para {
            None => geometric(r, &c.tool, &c.base, &c.j),
            Some((d, cp, sc)) => {
                let (d, cp) = ((d % 6) as usize, (cp % 6) as usize);
                let mut ji = c.j;
                ji[cp] -= sc * c.j[d];
                let mut m = geometric(r, &c.tool, &c.base, &ji);
                for row in 0..6 {
                    m[(row, d)] -= sc * m[(row, cp)];
                }
                ctx.class("wrapped in a parallelogram coupling");
                m
            }
        };

        // the library Jacobian needs a concrete type (impl Kinematics): build the four shapes explicitly
        // the robot may carry joint limits (the joint vector is legal, possibly exactly on a limit): the Jacobian is a property
        // of the kinematic map and does not depend on them
        let inner = match &c.window {
            None => opw(r),
            Some((lo, hi)) => {
                let from: [f64; 6] = std::array::from_fn(|k| c.j[k] - lo[k]);
                let to: [f64; 6] = std::array::from_fn(|k| c.j[k] + hi[k] + if lo[k] == 0.0 && hi[k] == 0.0 { 0.5 } else { 0.0 });
                ctx.class("robot with joint limits");
                if (0..6).any(|k| lo[k] <= 1e-6 || hi[k] <= 1e-6) {
                    ctx.class("a joint on (or within 1e-6 of) a limit");
                }
                opw_c(r, rs_opw_kinematics::constraints::Constraints::new(from, to, 0.0))
            }
        };
        if let Some(o) = &c.other {
            let ko = opw(o);
            let _ = no_panic(|| Jacobian::new(&ko, &c.j, eps)).map_err(|m| viol!("no panic", "Jacobian::new (other robot): {}", m))?;
            let _ = no_panic(|| Jacobian::new(&inner, &c.j, [1e-7, 1e-6, 1e-5][((c.eps + 1) % 3) as usize])).map_err(|m| viol!("no panic", "Jacobian::new (other step): {}", m))?;
            ctx.class("history: Jacobians of another robot / with another step at the same joints first");
        }
        // When there is a call history, the earlier robot and the robot of the case occupy the same variable one after the other (a robot
        // re-configured in place, or a new robot assigned to the same variable): the Jacobian must be that of the robot as it is now.
        fn in_one_slot<K: rs_opw_kinematics::kinematic_traits::Kinematics>(first: Option<K>, second: K, j: &[f64; 6], eps: f64) -> Jacobian {
            match first {
                None => Jacobian::new(&second, j, eps),
                Some(f) => {
                    let mut slot = f;
                    let _ = Jacobian::new(&slot, j, eps);
                    slot = second;
                    Jacobian::new(&slot, j, eps)
                }
            }
        }
        let earlier = c.other.as_ref().map(|o| opw(o));
        let jac = no_panic(|| match (&c.tool, &c.base) {
            _ if c.para.is_some() => {
                let (d, cp, sc) = c.para.unwrap();
                let core = rs_opw_kinematics::parallelogram::Parallelogram { robot: Arc::new(inner), scaling: sc, driven: (d % 6) as usize, coupled: (cp % 6) as usize };
                match (&c.tool, &c.base) {
                    (None, None) => Jacobian::new(&core, &c.j, eps),
                    (Some(t), None) => Jacobian::new(&Tool { robot: Arc::new(core), tool: to_na(&t.iso()) }, &c.j, eps),
                    (None, Some(b)) => Jacobian::new(&Base { robot: Arc::new(core), base: to_na(&b.iso()) }, &c.j, eps),
                    (Some(t), Some(b)) => Jacobian::new(&Tool { robot: Arc::new(Base { robot: Arc::new(core), base: to_na(&b.iso()) }), tool: to_na(&t.iso()) }, &c.j, eps),
                }
            }
            (None, None) => in_one_slot(earlier, inner, &c.j, eps),
            (Some(t), None) => in_one_slot(
                earlier.map(|e| Tool { robot: Arc::new(e), tool: to_na(&IsoSpec { t: [t.t[0] + 0.3, t.t[1], t.t[2] - 0.2], axis: t.axis, angle: t.angle + 0.4 }.iso()) }),
                Tool { robot: Arc::new(inner), tool: to_na(&t.iso()) },
                &c.j,
                eps,
            ),
            (None, Some(b)) => Jacobian::new(&Base { robot: Arc::new(inner), base: to_na(&b.iso()) }, &c.j, eps),
            (Some(t), Some(b)) => Jacobian::new(&Tool { robot: Arc::new(Base { robot: Arc::new(inner), base: to_na(&b.iso()) }), tool: to_na(&t.iso()) }, &c.j, eps),
        })
        .map_err(|m| viol!("no panic", "Jacobian::new: {}", m))?;
        // read the matrix: row r = torques_from_vector(e_r)
        let mut jnum = Matrix6::zeros();
        for row in 0..6 {
            let mut e = Vector6::zeros();
            e[row] = 1.0;
            let t = jac.torques_from_vector(&e);
            for col in 0..6 {
                jnum[(row, col)] = t[col];
            }
        }
        let mut worst = 0.0f64;
        for row in 0..6 {
            for col in 0..6 {
                worst = worst.max((jnum[(row, col)] - jgeo[(row, col)]).abs());
            }
        }
        ensure!(worst <= tol, "the Jacobian agrees column by column with the geometric one to within the differencing step", "max |J_num - J_geo| = {:e} tol {:e} (eps {:e}); J_num={:?} J_geo={:?}", worst, tol, eps, jnum, jgeo);

        // torques are the transpose applied to the wrench
        let f = Vector6::from_column_slice(&c.twist);
        let tq = jac.torques_from_vector(&f);
        let want = jgeo.transpose() * f;
        let fn_ = f.norm();
        for i in 0..6 {
            ensure!((tq[i] - want[i]).abs() <= tol * 6.0 * (1.0 + fn_), "torques are the transposed Jacobian applied to the wrench", "joint {}: {} vs {}", i + 1, tq[i], want[i]);
        }
        // isometry- and vector-based entry points agree
        let lin = [c.twist[0], c.twist[1], c.twist[2]];
        let ang = [c.twist[3], c.twist[4], c.twist[5]];
        let angn = norm(&ang);
        if angn < PI - 1e-6 {
            let rot = nalgebra::UnitQuaternion::from_scaled_axis(nalgebra::Vector3::new(ang[0], ang[1], ang[2]));
            let mut iso = nalgebra::Isometry3::from_parts(nalgebra::Translation3::new(lin[0], lin[1], lin[2]), rot);
            // the same rotation is also handed over in its other quaternion representative (-q, negative scalar part), as it
            // comes out of composing rotations; the case's own numbers decide which
            if (lin[0] * 1e3).abs().fract() < 0.5 && angn > 1e-9 {
                iso.rotation = nalgebra::UnitQuaternion::new_unchecked(-iso.rotation.into_inner());
                ctx.class("isometry entry points: quaternion with negative scalar part");
            }
            let t_iso = jac.torques(&iso);
            for i in 0..6 {
                ensure!((t_iso[i] - tq[i]).abs() <= 1e-9 * (1.0 + reach) * (1.0 + fn_), "isometry- and vector-based torque entry points agree", "joint {}: {} vs {}", i + 1, t_iso[i], tq[i]);
            }
            let s = svd_sigmas(&balanced(&jgeo, c.unit));
            let cond = s.0 / s.1.max(1e-300);
            if cond < 1e4 {
                let v_iso = jac.velocities(&iso).map_err(|e| viol!("velocities succeeds for a well-conditioned Jacobian", "{}", e))?;
                let v_vec = jac.velocities_from_vector(&f).map_err(|e| viol!("velocities_from_vector succeeds", "{}", e))?;
                for i in 0..6 {
                    ensure!((v_iso[i] - v_vec[i]).abs() <= 1e-9 * (1.0 + v_vec[i].abs()) * cond * c.unit, "isometry- and vector-based velocity entry points agree", "joint {}: {} vs {}", i + 1, v_iso[i], v_vec[i]);
                }
            }
        }
        // velocities reproduce the twist through the Jacobian when it is well conditioned
        // (conditioning is judged with the linear rows expressed in metres, so that it does not depend on the length unit of the model)
        let s = svd_sigmas(&balanced(&jgeo, c.unit));
        let cond = s.0 / s.1.max(1e-300);
        if cond < 1e4 {
            let qd = jac.velocities_from_vector(&f).map_err(|e| viol!("velocities_from_vector succeeds for a well-conditioned Jacobian", "{}", e))?;
            let qdv = Vector6::from_column_slice(&qd);
            let back = jgeo * qdv;
            let err = (back - f).norm();
            let bound = 6.0 * tol * qdv.norm() * 6.0 + 1e-9 * c.unit * (1.0 + fn_);
            ensure!(err <= bound, "joint velocities returned for a twist reproduce that twist through the Jacobian", "|J qdot - X| = {:e} bound {:e} (cond {:e})", err, bound, cond);
            let fixed = jac.velocities_fixed(lin[0], lin[1], lin[2]).map_err(|e| viol!("velocities_fixed succeeds", "{}", e))?;
            let mut f0 = f;
            f0[3] = 0.0;
            f0[4] = 0.0;
            f0[5] = 0.0;
            let vf = jac.velocities_from_vector(&f0).map_err(|e| viol!("velocities_from_vector succeeds", "{}", e))?;
            for i in 0..6 {
                ensure!((fixed[i] - vf[i]).abs() <= 1e-9 * (1.0 + vf[i].abs()), "velocities_fixed(v) agrees with the vector form on [v;0]", "joint {}: {} vs {}", i + 1, fixed[i], vf[i]);
            }
            // the rotational part on its own scale: the angular rows carry no length; allowed is what the measured difference between the library's and the
            // geometric angular rows can contribute, plus the rounding of the solve
            let err_w = (0..3).map(|i| (back[3 + i] - f[3 + i]).powi(2)).sum::<f64>().sqrt();
            let dw = (0..3).map(|r| (0..6).map(|cc| (jnum[(3 + r, cc)] - jgeo[(3 + r, cc)]).powi(2)).sum::<f64>()).sum::<f64>().sqrt();
            let bound_w = dw * qdv.norm() + 1e-12 * cond * c.unit * (1.0 + fn_) + 1e-12;
            ensure!(err_w <= bound_w, "joint velocities returned for a twist reproduce the rotational part of that twist through the Jacobian", "|(J qdot - X)_w| = {:e} bound {:e} (cond {:e}, unit {})", err_w, bound_w, cond, c.unit);
            ctx.class("well-conditioned");
            if c.unit != 1.0 {
                ctx.class("model in millimetres, well-conditioned");
            }
            let nondefault = r.signs.iter().any(|x| *x != 1) || c.tool.is_some() || c.base.is_some();
            if nondefault {
                ctx.nontrivial();
            }
        } else {
            ctx.exclude("condition number >= 1e4: velocity clause skipped");
        }
        ctx.class(match (&c.tool, &c.base) {
            (None, None) => "bare",
            (Some(_), None) => "Tool",
            (None, Some(_)) => "Base",
            _ => "Tool over Base",
        });
        ctx.class(&format!("eps:{:e}", eps));
        Ok(())
    }
}

fn svd_sigmas(m: &Matrix6<f64>) -> (f64, f64) {
    let sv = m.svd(false, false).singular_values;
    let mx = sv.iter().cloned().fold(0.0, f64::max);
    let mn = sv.iter().cloned().fold(f64::INFINITY, f64::min);
    (mx, mn)
}
