//! C10 — collision verdicts equal a brute-force pairwise check at the safety distances.

use crate::engine::*;
use crate::gen::*;
use crate::scene::*;
use crate::selftest::GUARD;
use crate::{ensure, viol};
use proptest::prelude::*;
use rs_opw_kinematics::kinematic_traits::{ENV_START_IDX, J_BASE, J_TOOL};
use serde::{Deserialize, Serialize};
use std::collections::BTreeSet;

pub struct C10;

#[derive(Clone, Debug, Serialize, Deserialize)]
pub struct Case {
    pub scene: Scene,
    /// joint vector at which attached environment boxes are placed and the first query is made
    pub j: [f64; 6],
    /// a second query vector (same scene, different posture)
    pub j2: [f64; 6],
    /// alternative table for near()
    pub alt: SafetySpec,
}

pub fn pair_name(p: &(usize, usize)) -> String {
    let n = |x: usize| {
        if x == J_TOOL {
            "tool".to_string()
        } else if x == J_BASE {
            "base".to_string()
        } else if x >= ENV_START_IDX {
            format!("env{}", x - ENV_START_IDX)
        } else {
            format!("J{}", x + 1)
        }
    };
    format!("({},{})", n(p.0), n(p.1))
}

pub struct Expected {
    pub decided: BTreeSet<(usize, usize)>,
    pub undecided: BTreeSet<(usize, usize)>,
    pub free: usize,
    pub exempt: usize,
    pub detail: Vec<String>,
    /// pairs involving a file mesh whose decision margin is below 5 mm
    pub shallow: BTreeSet<(usize, usize)>,
}

pub fn expected(scene: &Scene, b: &Built, j: &[f64; 6], table: &SafetySpec) -> Expected {
    let mut e = Expected { decided: BTreeSet::new(), undecided: BTreeSet::new(), free: 0, exempt: 0, detail: vec![], shallow: BTreeSet::new() };
    for pair in relevant_pairs(b) {
        let info = decide_pair(scene, b, j, pair, table, GUARD);
        e.detail.push(format!("{} d={:.6} r={} -> {:?}{}", pair_name(&(info.a, info.b)), info.dist, info.limit, info.verdict, if info.shallow { " (margin < 5 mm, file mesh)" } else { "" }));
        if info.shallow {
            e.shallow.insert((info.a, info.b));
        }
        match info.verdict {
            PairVerdict::Collides => {
                e.decided.insert((info.a, info.b));
            }
            PairVerdict::Undecided => {
                e.undecided.insert((info.a, info.b));
            }
            PairVerdict::Free => e.free += 1,
            PairVerdict::Exempt => e.exempt += 1,
        }
    }
    e
}

static POOLS: std::sync::OnceLock<Vec<(usize, rayon::ThreadPool)>> = std::sync::OnceLock::new();

/// Run `f` inside a rayon pool of the given size (pools are created once and shared by the workers).
pub fn in_pool<T: Send>(threads: usize, f: impl FnOnce() -> T + Send) -> T {
    let pools = POOLS.get_or_init(|| [1usize, 2, 3, 4, 8, 16].iter().map(|n| (*n, rayon::ThreadPoolBuilder::new().num_threads(*n).build().expect("rayon pool"))).collect());
    match pools.iter().find(|(n, _)| *n == threads) {
        Some((_, p)) => p.install(f),
        None => rayon::ThreadPoolBuilder::new().num_threads(threads).build().expect("rayon pool").install(f),
    }
}

fn norm_pairs(v: &[(usize, usize)]) -> BTreeSet<(usize, usize)> {
    v.iter().map(|(a, b)| (*a.min(b), *a.max(b))).collect()
}

/// Compare one report with the expectation under `mode` (0 first, 1 all, 2 none).
pub fn check_report(what: &str, mode: u8, report: &[(usize, usize)], e: &Expected, ctx: &mut Ctx) -> Res {
    // Known finding C10-fine-mesh-f32: between fine file meshes the f32 engine behind the library misjudges contacts by up to a few mm;
    // a disagreement on a pair whose decision margin is below 5 mm and that involves a file mesh is counted, not reported.
    macro_rules! fail {
        ($pair:expr, $clause:expr, $($arg:tt)*) => {{
            let v = Violation { clause: $clause.to_string(), detail: format!($($arg)*) };
            if e.shallow.contains($pair) {
                ctx.known_or("C10-fine-mesh-f32", v)?;
            } else {
                return Err(v);
            }
        }};
    }
    let rep = norm_pairs(report);
    let show = |s: &BTreeSet<(usize, usize)>| s.iter().map(pair_name).collect::<Vec<_>>().join(" ");
    match mode % 3 {
        2 => ensure!(rep.is_empty(), "nothing is reported in no-check mode", "{}: reported {}", what, show(&rep)),
        1 => {
            for p in &e.decided {
                if !rep.contains(p) {
                    fail!(p, "the detailed report lists every relevant pair that intersects or is closer than its safety distance", "{}: pair {} is missing from the report [{}]; oracle: {}", what, pair_name(p), show(&rep), e.detail.join("; "));
                }
            }
            for p in &rep {
                if !(e.decided.contains(p) || e.undecided.contains(p)) {
                    fail!(p, "the detailed report lists only relevant, non-exempt pairs that intersect or are closer than their safety distance", "{}: pair {} is reported but the oracle says otherwise; oracle: {}", what, pair_name(p), e.detail.join("; "));
                }
            }
        }
        _ => {
            for p in &rep {
                if !(e.decided.contains(p) || e.undecided.contains(p)) {
                    fail!(p, "first-collision mode reports a subset of the colliding pairs", "{}: pair {} is reported but the oracle says otherwise; oracle: {}", what, pair_name(p), e.detail.join("; "));
                }
            }
            if rep.is_empty() {
                // some decided pair with a comfortable margin must have been found
                if let Some(p) = e.decided.iter().find(|p| !e.shallow.contains(p)) {
                    fail!(p, "first-collision mode reports at least one of the colliding pairs", "{}: empty report, oracle: {}", what, e.detail.join("; "));
                } else if let Some(p) = e.decided.iter().next() {
                    fail!(p, "first-collision mode reports at least one of the colliding pairs", "{}: empty report, oracle: {}", what, e.detail.join("; "));
                }
            }
        }
    }
    Ok(())
}

impl Property for C10 {
    type Case = Case;
    fn id(&self) -> &'static str {
        "C10"
    }
    fn rule(&self) -> String {
        "box-bodied robots (catalogue / realistic geometry; link boxes of random thickness, 8- or 14-vertex variants; 1 scene in 50 uses the bundled RX160 STL meshes for links and base) x joint vectors (two postures per scene) x optional tool and base x 0..3 environment boxes placed against a chosen link / the tool at a gap of \
         {-0.5, 0.3, 0.8, 1.25, 3, random} x the pair's safety distance (or free in space) x safety tables (touch-only, positive defaults in [0.005,0.3], per-pair overrides in either key order, NEVER_COLLIDES on random pairs incl. pairs naming J1, base and tool) \
         x modes {first, all, none} x collides / collision_details / near(alternative table) / RobotBody::collides x rayon pools of 1, 2, 3, 4, 16 threads with repeats. Oracle D decides every relevant pair; pairs within the 1e-4 m guard band, grazing contacts and \
         containment without surface contact are undecided. Non-trivial: a scene/posture with >= 1 decided-colliding and >= 1 decided-free relevant pair."
            .into()
    }
    fn assumptions(&self) -> Vec<String> {
        vec![
            "oracle D (harness/src/mesh.rs): exact triangle-triangle distance over all pairs, bodies placed by oracle M (base-composed); self-tested analytically and against parry3d::query::distance (oracle_selftest)".into(),
            "relevant pairs enumerated from the statement, not from the code".into(),
            "tables giving two different values for the two key orders of one pair are not generated (ambiguous)".into(),
        ]
    }
    fn plan(&self, tier: Tier) -> Plan {
        Plan { workers: tier.pick(4, 8), cases_per_worker: tier.pick(400, 2_500), max_shrink_iters: 400 }
    }
    fn selftest(&self) -> Result<serde_json::Value, String> {
        let a = crate::selftest::model_vs_recorded()?;
        let b = crate::selftest::mesh_selftest()?;
        Ok(serde_json::json!([a, b]))
    }
    fn strategy(&self, _tier: Tier) -> BoxedStrategy<Case> {
        // 1 scene in 50 uses the bundled RX160 STL meshes (1.7k..15k triangles per link): slower oracle, same decisions
        prop_oneof![49 => scene_strategy(3), 1 => scene_strategy(2).prop_map(|mut s| {
            s.rx160 = true;
            s.robot = rx160_spec();
            // moderate margins: the real links come close to each other by design
            s.safety.to_robot_default = s.safety.to_robot_default.min(0.05);
            s.safety.to_environment = s.safety.to_environment.min(0.1);
            s
        })]
            .prop_flat_map(|scene| {
                let n_env = scene.env.len();
                let (wt, wb) = (scene.tool.is_some(), scene.base.is_some());
                (Just(scene), joints_uniform(), prop_oneof![joints_uniform(), prop::array::uniform6(-3.1..3.1f64)], safety_strategy(n_env, wt, wb))
            })
            .prop_map(|(scene, j, j2, alt)| Case { scene, j, j2, alt })
            .boxed()
    }
    fn check(&self, c: &Case, ctx: &mut Ctx) -> Res {
        if c.scene.safety.ambiguous() || c.alt.ambiguous() {
            ctx.exclude("safety table with conflicting values for the two key orders of one pair");
            return Ok(());
        }
        let built = c.scene.build(&c.j);
        let robot = &built.robot;
        let mode = c.scene.safety.mode % 3;
        ctx.class(["mode:first", "mode:all", "mode:none"][mode as usize]);
        ctx.class(if c.scene.tool.is_some() { "tool:yes" } else { "tool:no" });
        ctx.class(if c.scene.base.is_some() { "base:yes" } else { "base:no" });
        ctx.class(&format!("env:{}", c.scene.env.len()));
        if c.scene.rx160 {
            if rx160_meshes().is_none() {
                ctx.exclude("RX160 meshes could not be loaded from the repository");
                return Ok(());
            }
            ctx.class("meshes:bundled RX160 STL");
        }
        ctx.class(if c.scene.safety.to_environment == 0.0 && c.scene.safety.to_robot_default == 0.0 { "safety:touch-only defaults" } else { "safety:positive defaults" });
        if c.scene.safety.special.iter().any(|s| s.2 <= -1.0) {
            ctx.class("safety:has NEVER_COLLIDES pair");
        }

        for (qi, q) in [c.j, c.j2].iter().enumerate() {
            let e = expected(&c.scene, &built, q, &c.scene.safety);
            let what = format!("posture {}", qi + 1);
            // collision_details: once per pool size and repeated
            let mut first_report: Option<BTreeSet<(usize, usize)>> = None;
            for (threads, repeats) in [(1usize, 1usize), (2, 2), (3, 1), (4, 2), (16, 3)] {
                for _ in 0..repeats {
                    let det = in_pool(threads, || no_panic(|| robot.collision_details(q))).map_err(|m| viol!("no panic", "collision_details: {}", m))?;
                    check_report(&format!("{} collision_details [{} threads]", what, threads), mode, &det, &e, ctx)?;
                    let col = in_pool(threads, || no_panic(|| robot.collides(q))).map_err(|m| viol!("no panic", "collides: {}", m))?;
                    if mode == 2 {
                        ensure!(!col, "no-check mode never reports a collision", "{}: collides() = true", what);
                    } else {
                        let firm = e.decided.iter().any(|p| !e.shallow.contains(p));
                        if !e.decided.is_empty() && !col {
                            let v = viol!("a joint vector is reported colliding when some relevant pair is closer than its safety distance", "{} [{} threads]: collides() = false; oracle: {}", what, threads, e.detail.join("; "));
                            if firm {
                                return Err(v);
                            }
                            ctx.known_or("C10-fine-mesh-f32", v)?;
                        }
                        if e.decided.is_empty() && e.undecided.is_empty() && col {
                            let v = viol!("a joint vector is reported colliding only when some relevant pair is closer than its safety distance", "{} [{} threads]: collides() = true; oracle: {}", what, threads, e.detail.join("; "));
                            if e.shallow.is_empty() {
                                return Err(v);
                            }
                            ctx.known_or("C10-fine-mesh-f32", v)?;
                        }
                    }
                    let rep = norm_pairs(&det);
                    match (&first_report, mode) {
                        (None, _) => first_report = Some(rep),
                        (Some(f), 1) => {
                            ensure!(*f == rep, "the report does not depend on thread count or scheduling", "{}: {:?} with another pool vs {:?} with {} threads", what, f, rep, threads);
                        }
                        (Some(f), _) => {
                            ensure!(f.is_empty() == rep.is_empty(), "the verdict does not depend on thread count or scheduling", "{}: {:?} vs {:?}", what, f, rep);
                        }
                    }
                }
            }
            // RobotBody::collides directly
            let col_b = no_panic(|| robot.body.collides(q, robot.kinematics.as_ref())).map_err(|m| viol!("no panic", "RobotBody::collides: {}", m))?;
            let col_k = no_panic(|| robot.collides(q)).map_err(|m| viol!("no panic", "collides: {}", m))?;
            if e.undecided.is_empty() {
                ensure!(col_b == col_k, "RobotBody::collides and KinematicsWithShape::collides agree", "{} vs {}", col_b, col_k);
            }
            // near() with the alternative table
            let ea = expected(&c.scene, &built, q, &c.alt);
            let alt = c.alt.build();
            let near = in_pool(4, || no_panic(|| robot.near(q, &alt))).map_err(|m| viol!("no panic", "near: {}", m))?;
            check_report(&format!("{} near(alternative table)", what), c.alt.mode % 3, &near, &ea, ctx)?;

            if !e.decided.is_empty() && e.free > 0 {
                ctx.nontrivial();
            }
            ctx.class_n("pairs:decided-colliding", e.decided.len() as u64);
            ctx.class_n("pairs:decided-free", e.free as u64);
            ctx.class_n("pairs:undecided(guard band / grazing / containment)", e.undecided.len() as u64);
            ctx.class_n("pairs:exempt", e.exempt as u64);
            for p in &e.decided {
                let kind = if p.1 >= ENV_START_IDX {
                    if p.0 == J_TOOL {
                        "colliding:tool-env"
                    } else {
                        "colliding:link-env"
                    }
                } else if p.1 == J_BASE {
                    if p.0 == J_TOOL {
                        "colliding:tool-base"
                    } else {
                        "colliding:link-base"
                    }
                } else if p.1 == J_TOOL {
                    "colliding:link-tool"
                } else {
                    "colliding:link-link"
                };
                ctx.class(kind);
            }
        }
        // history: the safety table of the same robot object is replaced (public field) and the first posture asked about again
        if !c.scene.rx160 {
            let mut built = built;
            built.robot.body.safety = c.alt.build();
            let ea = expected(&c.scene, &built, &c.j, &c.alt);
            let det = in_pool(4, || no_panic(|| built.robot.collision_details(&c.j))).map_err(|m| viol!("no panic", "collision_details: {}", m))?;
            check_report("posture 1 collision_details after robot.body.safety was replaced by the alternative table", c.alt.mode % 3, &det, &ea, ctx)?;
            ctx.class("history: safety table replaced between two calls");
        }
        Ok(())
    }
}
