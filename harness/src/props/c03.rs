//! C03 — forward kinematics equals the OPW link chain, for the tool point and every link.

use crate::engine::*;
use crate::gen::*;
use crate::glue::*;
use crate::model::*;
use crate::{ensure, viol};
use proptest::prelude::*;
use rs_opw_kinematics::kinematic_traits::Kinematics;
use serde::{Deserialize, Serialize};

pub struct C03;

#[derive(Clone, Debug, Serialize, Deserialize)]
pub struct Case {
    pub robot: RobotSpec,
    pub j: [f64; 6],
    /// second joint vector and split index for the "link i depends only on joints 1..i" clause
    pub j2: [f64; 6],
    pub split: u8,
    /// a second robot evaluated on the very same joint vectors in between (call history: the poses must be a pure
    /// function of parameters and joints, whatever was computed before on this thread)
    #[serde(default)]
    pub other: Option<RobotSpec>,
}

impl Property for C03 {
    type Case = Case;
    fn id(&self) -> &'static str {
        "C03"
    }
    fn rule(&self) -> String {
        "robots: catalogue / realistic random / negative lengths / degenerate (zero, tiny, huge lengths), all 64 sign patterns, offsets, dof 5/6; \
         joints: uniform [-pi,pi], wide [-4pi,4pi], pi/2 lattice, huge (|q| up to 2pi*1e3). Every case is non-trivial (both closed-form and chained FK are \
         compared with the independent model M on every link); distinct = distinct serialized (robot, joints) cases."
            .into()
    }
    fn assumptions(&self) -> Vec<String> {
        vec!["oracle M (harness/src/model.rs) is the OPW link chain; validated against the recorded C++ cases (oracle_selftest)".into(),
             "tolerance 1e-9*(1+reach)*(1+max|q|*1e-3) for position, 1e-9*(1+max|q|*1e-3) rad for rotation".into()]
    }
    fn plan(&self, tier: Tier) -> Plan {
        Plan { workers: tier.pick(4, 16), cases_per_worker: tier.pick(250_000, 2_000_000), max_shrink_iters: 4000 }
    }
    fn selftest(&self) -> Result<serde_json::Value, String> {
        crate::selftest::model_vs_recorded()
    }
    fn strategy(&self, _tier: Tier) -> BoxedStrategy<Case> {
        (
            robot_any(DofChoice::Both),
            prop_oneof![6 => joints_mixed(), 2 => joints_huge()],
            joints_uniform(),
            0u8..6,
            prop_oneof![1 => Just(None), 1 => robot_any(DofChoice::Both).prop_map(Some), 1 => (0u8..6, offset_strategy(), any::<bool>()).prop_map(|x| Some(RobotSpec { a1: f64::NAN, a2: x.0 as f64, b: x.1, c1: if x.2 { 1.0 } else { 0.0 }, c2: 0.0, c3: 0.0, c4: 0.0, offsets: [0.0; 6], signs: [1; 6], dof: 6 }))],
        )
            .prop_map(|(robot, j, j2, split, other)| {
                // the marker a1 = NaN means: same robot with one offset / sign changed (calibration variants of one geometry)
                let other = other.map(|o| {
                    if o.a1.is_nan() {
                        let mut v = robot;
                        let k = (o.a2 as usize) % 6;
                        if o.c1 == 1.0 && v.signs[k] != 0 {
                            v.signs[k] = -v.signs[k];
                        } else {
                            v.offsets[k] += if o.b == 0.0 { 0.25 } else { o.b };
                        }
                        v
                    } else {
                        o
                    }
                });
                Case { robot, j, j2, split, other }
            })
            .boxed()
    }
    fn check(&self, c: &Case, ctx: &mut Ctx) -> Res {
        let r = &c.robot;
        for cl in robot_class(r) {
            ctx.class(cl);
        }
        let qmax = c.j.iter().fold(0.0f64, |a, b| a.max(b.abs()));
        ctx.class(if qmax > 4.0 * PI + 1e-9 { "joints:huge" } else if qmax > PI { "joints:wide" } else { "joints:[-pi,pi]" });
        let tol_p = 1e-9 * (1.0 + r.reach()) * (1.0 + qmax * 1e-3);
        let tol_a = 1e-9 * (1.0 + qmax * 1e-3);

        // call history: another robot is asked for the same joint vectors first
        if let Some(o) = &c.other {
            let ko = opw(o);
            let lo = no_panic(|| ko.forward_with_joint_poses(&c.j)).map_err(|m| viol!("forward_with_joint_poses must not panic", "{}", m))?;
            let fo = no_panic(|| ko.forward(&c.j)).map_err(|m| viol!("forward must not panic", "{}", m))?;
            let mo = o.links(&c.j);
            let tol = 1e-9 * (1.0 + o.reach()) * (1.0 + c.j.iter().fold(0.0f64, |a, b| a.max(b.abs())) * 1e-3);
            if let (Some(l5), Some(f)) = (from_na(&lo[5]), from_na(&fo)) {
                ensure!(dist(&l5.p, &mo[5].p) <= tol && dist(&f.p, &mo[5].p) <= tol, "poses are a function of the parameter set and the joint vector only (first robot of the history)", "other robot: link6 {:?} forward {:?} model {:?}", l5.p, f.p, mo[5].p);
            }
            ctx.class("history:another robot evaluated on the same joints first");
        }
        let k = opw(r);
        let model = r.links(&c.j);
        let fwd = no_panic(|| k.forward(&c.j)).map_err(|m| viol!("forward must not panic", "{}", m))?;
        let links = no_panic(|| k.forward_with_joint_poses(&c.j)).map_err(|m| viol!("forward_with_joint_poses must not panic", "{}", m))?;

        let f = from_na(&fwd).ok_or_else(|| viol!("forward returns a finite pose", "forward({:?}) = {:?}", c.j, fwd))?;
        ensure!((quat_norm(&fwd) - 1.0).abs() < 1e-9, "forward rotation is a unit quaternion", "norm-1 = {:e}", quat_norm(&fwd) - 1.0);
        let dp = dist(&f.p, &model[5].p);
        let da = rot_angle(&f.r, &model[5].r);
        ensure!(dp <= tol_p, "forward(q) == M_6(q) (position)", "dp={:e} tol={:e} lib={:?} model={:?}", dp, tol_p, f.p, model[5].p);
        ensure!(da <= tol_a, "forward(q) == M_6(q) (rotation)", "dang={:e} tol={:e}", da, tol_a);

        let mut lib_links = [Iso::identity(); 6];
        for i in 0..6 {
            let l = from_na(&links[i]).ok_or_else(|| viol!("link poses are finite", "link {} = {:?}", i + 1, links[i]))?;
            ensure!((quat_norm(&links[i]) - 1.0).abs() < 1e-9, "link rotation is a unit quaternion", "link {} norm-1 = {:e}", i + 1, quat_norm(&links[i]) - 1.0);
            ensure!((det(&l.r) - 1.0).abs() < 1e-9, "link rotation is proper (det=+1)", "link {} det={}", i + 1, det(&l.r));
            let dp = dist(&l.p, &model[i].p);
            let da = rot_angle(&l.r, &model[i].r);
            ensure!(dp <= tol_p, "forward_with_joint_poses(q)[i] == M_{i+1}(q) (position)", "link {} dp={:e} tol={:e} lib={:?} model={:?}", i + 1, dp, tol_p, l.p, model[i].p);
            ensure!(da <= tol_a, "forward_with_joint_poses(q)[i] == M_{i+1}(q) (rotation)", "link {} dang={:e} tol={:e}", i + 1, da, tol_a);
            lib_links[i] = l;
        }
        // last link pose equals forward
        let dp = dist(&lib_links[5].p, &f.p);
        let da = rot_angle(&lib_links[5].r, &f.r);
        ensure!(dp <= tol_p && da <= tol_a, "last link pose == forward", "dp={:e} dang={:e}", dp, da);

        // consecutive link origins separated by exactly the parameter-defined offsets
        let rel = 1e-9 * (1.0 + r.reach()) * (1.0 + qmax * 1e-3);
        let o = |i: usize| lib_links[i].p;
        let want = [
            (r.a1 * r.a1 + r.b * r.b).sqrt(),
            r.c2.abs(),
            r.a2.abs(),
            r.c3.abs(),
            r.c4.abs(),
        ];
        ensure!(dist(&o(0), &[0.0, 0.0, r.c1]) <= rel, "link 1 origin == (0,0,c1)", "o1={:?} c1={}", o(0), r.c1);
        for i in 0..5 {
            let d = dist(&o(i + 1), &o(i));
            ensure!((d - want[i]).abs() <= rel, "consecutive link origins are separated by the parameter-defined offset", "|o{}-o{}|={} want {}", i + 2, i + 1, d, want[i]);
        }

        // link pose i depends only on joints 1..i: change joints split+1..6, poses 0..=split stay bit-identical
        let s = c.split as usize;
        let mut jm = c.j;
        for t in (s + 1)..6 {
            jm[t] = c.j2[t];
        }
        let links2 = no_panic(|| k.forward_with_joint_poses(&jm)).map_err(|m| viol!("forward_with_joint_poses must not panic", "{}", m))?;
        for i in 0..=s {
            ensure!(links2[i] == links[i], "link pose i depends only on joints 1..i", "link {} changed when joints {}..6 changed: {:?} vs {:?}", i + 1, s + 2, links[i], links2[i]);
        }
        ctx.nontrivial();
        Ok(())
    }
}
