//! C18 — random joint vectors drawn from constraints always satisfy them.

use crate::arc::*;
use crate::engine::*;
use crate::model::*;
use crate::{ensure, viol};
use proptest::prelude::*;
use rs_opw_kinematics::constraints::Constraints;
use serde::{Deserialize, Serialize};

pub struct C18;

#[derive(Clone, Debug, Serialize, Deserialize)]
pub struct Case {
    pub from: [f64; 6],
    pub to: [f64; 6],
    pub rng_seed: u64,
    pub draws: u16,
    /// history of the constraint object: built with these limits first, then moved to (from, to) by update_range.
    /// Per joint the earlier pair may share one limit, both or none with the final one.
    #[serde(default)]
    pub earlier: Option<([f64; 6], [f64; 6])>,
    /// true: the (first) constraint object is built with from_degrees (the limits are then the radians of the rounded degree values)
    #[serde(default)]
    pub degrees: bool,
}

/// class of one (from,to) pair
fn pair_class(from: f64, to: f64) -> &'static str {
    if from == to {
        "from==to"
    } else if from < to {
        if to - from >= TWO_PI {
            "ordinary span>=2pi"
        } else {
            "ordinary"
        }
    } else if from - to > TWO_PI {
        "wrapping from-to>2pi"
    } else if from > 0.0 && to > 0.0 {
        "wrapping both positive"
    } else if from < 0.0 && to < 0.0 {
        "wrapping both negative"
    } else if to == 0.0 {
        "wrapping to==0"
    } else {
        "wrapping straddling 0"
    }
}

fn pair_strategy() -> BoxedStrategy<(f64, f64)> {
    let lim = TWO_PI;
    prop_oneof![
        3 => (-lim..lim, -lim..lim).prop_map(|(a, b)| if a <= b { (a, b) } else { (b, a) }),         // ordinary (any span up to 4 pi)
        2 => (0.01..lim, 0.0..1.0f64).prop_map(|(from, u)| (from, u * from * 0.999)),                     // wrapping both positive
        2 => (-lim..-0.01f64, 0.0..1.0f64).prop_map(move |(to, u)| (to + u * (-to) * 0.999 + 1e-6, to)), // wrapping both negative (to < from < 0)
        2 => (0.01..lim, -lim..-0.01f64).prop_map(|(from, to)| (from, to)),                               // wrapping straddling 0 (from-to may exceed 2pi)
        1 => (0.01..lim).prop_map(|from| (from, 0.0)),                                                    // wrapping with to == 0 (the only shape the repo tests reach)
        1 => (-lim..lim).prop_map(|a| (a, a)),                                                            // equal: unconstrained
        1 => (-lim..lim, -lim..lim).prop_map(|(a, b)| (a, b)),                                            // anything
    ]
    .boxed()
}

impl Property for C18 {
    type Case = Case;
    fn id(&self) -> &'static str {
        "C18"
    }
    fn rule(&self) -> String {
        "(from,to) per joint in [-2pi,2pi]: ordinary; wrapping with both positive / both negative / straddling zero / to==0; from-to > 2pi; from==to; 100..300 draws per constraint set with the library RNG seeded per set through the verif_hooks feature. \
         Three sets in ten are built with from_degrees (degree values of the limits), the others with new. One third of the sets reach their limits through a history (new with other limits, then update_range; per joint the earlier pair shares the lower limit, the upper limit, both or none). Width-less arcs (from>to with from==to mod 2pi) are excluded and counted. Non-trivial: sets with at least one wrapping joint whose 'to' != 0 (the branch the repository's tests never reach)."
            .into()
    }
    fn assumptions(&self) -> Vec<String> {
        vec![
            "each draw must be accepted by the same Constraints (compliant) and by oracle A with an open 1e-9 slack at the arc ends".into(),
            "the sampler's generator is replaced by a seeded StdRng through the hook; without the hook it is rand::thread_rng()".into(),
        ]
    }
    fn plan(&self, tier: Tier) -> Plan {
        Plan { workers: tier.pick(4, 16), cases_per_worker: tier.pick(10_000, 60_000), max_shrink_iters: 3000 }
    }
    fn selftest(&self) -> Result<serde_json::Value, String> {
        crate::selftest::arc_selftest()
    }
    fn strategy(&self, _tier: Tier) -> BoxedStrategy<Case> {
        (prop::array::uniform6(pair_strategy()), any::<u64>(), 100u16..300, prop_oneof![2 => Just(None), 1 => (prop::array::uniform6(pair_strategy()), prop::array::uniform6(0u8..4)).prop_map(Some)], prop::bool::weighted(0.3))
            .prop_map(|(p, rng_seed, draws, hist, degrees)| {
                let mut from = [0.0; 6];
                let mut to = [0.0; 6];
                for k in 0..6 {
                    from[k] = p[k].0;
                    to[k] = p[k].1;
                    if degrees {
                        // what from_degrees will store for the degree value nearest to the drawn limit
                        let (f1, t1) = (from[k].to_degrees().to_radians(), to[k].to_degrees().to_radians());
                        // keep the shape of the pair (rounding must not turn from==to into a full-turn wrap or the reverse)
                        if (from[k] < to[k]) == (f1 < t1) && (from[k] == to[k]) == (f1 == t1) {
                            from[k] = f1;
                            to[k] = t1;
                        } else {
                            to[k] = from[k].to_degrees().to_radians();
                            from[k] = to[k];
                        }
                    }
                }
                let earlier = hist.map(|(q, share)| {
                    let mut f0 = [0.0; 6];
                    let mut t0 = [0.0; 6];
                    for k in 0..6 {
                        // 0: both limits differ, 1: same lower limit, 2: same upper limit, 3: identical pair
                        f0[k] = if share[k] == 1 || share[k] == 3 { from[k] } else { q[k].0 };
                        t0[k] = if share[k] == 2 || share[k] == 3 { to[k] } else { q[k].1 };
                    }
                    (f0, t0)
                });
                Case { from, to, rng_seed, draws, earlier, degrees }
            })
            .boxed()
    }
    fn check(&self, c: &Case, ctx: &mut Ctx) -> Res {
        // width-less arcs: from > to and from == to (mod 2 pi)
        for k in 0..6 {
            if c.from[k] > c.to[k] {
                let span = (c.to[k] - c.from[k]).rem_euclid(TWO_PI);
                if span < 1e-9 || span > TWO_PI - 1e-9 {
                    ctx.exclude("width-less wrap-around arc (from>to, from==to mod 2pi)");
                    return Ok(());
                }
            }
        }
        let mut nontrivial = false;
        for k in 0..6 {
            let cl = pair_class(c.from[k], c.to[k]);
            ctx.class(cl);
            if cl.starts_with("wrapping") && c.to[k] != 0.0 {
                nontrivial = true;
            }
        }
        let build = |f: &[f64; 6], t: &[f64; 6]| -> Constraints {
            if c.degrees {
                Constraints::from_degrees(std::array::from_fn(|k| f[k].to_degrees()..=t[k].to_degrees()), 0.0)
            } else {
                Constraints::new(*f, *t, 0.0)
            }
        };
        let cons = match &c.earlier {
            None => build(&c.from, &c.to),
            Some((f0, t0)) => {
                let mut x = build(f0, t0);
                x.update_range(c.from, c.to);
                ctx.class("constraints reached through update_range");
                x
            }
        };
        if c.degrees {
            ctx.class("constraints built with from_degrees");
            if c.earlier.is_none() {
                // the oracle's arcs are those the object stores (C07 decides that they are the radians of the degree values)
                let stored = (0..6).all(|k| (cons.from[k] - c.from[k]).abs() <= 1e-12 && (cons.to[k] - c.to[k]).abs() <= 1e-12);
                if !stored {
                    ctx.exclude("degree round trip of a limit differs by more than 1e-12 rad");
                    return Ok(());
                }
            }
        }
        rs_opw_kinematics::verif_hooks::seed_rng(c.rng_seed);
        let mut result = Ok(());
        for d in 0..c.draws {
            let drawn = no_panic(|| cons.random_angles());
            let v = match drawn {
                Ok(v) => v,
                Err(m) => {
                    result = Err(viol!("the sampler never panics for limits that describe an arc of positive width", "from={:?} to={:?}: {}", c.from, c.to, m));
                    break;
                }
            };
            let mut bad = None;
            for k in 0..6 {
                if !v[k].is_finite() {
                    bad = Some((k, "not finite"));
                    break;
                }
                if arc_member(c.from[k], c.to[k], v[k], 1e-9) == Verdict::Out {
                    bad = Some((k, "outside the arc (oracle A)"));
                    break;
                }
            }
            if let Some((k, why)) = bad {
                result = Err(viol!(
                    "every joint vector produced by the constraint sampler lies on the arcs it was drawn from",
                    "draw {}: joint {} = {} is {} for from={} to={} ({})",
                    d,
                    k + 1,
                    v[k],
                    why,
                    c.from[k],
                    c.to[k],
                    pair_class(c.from[k], c.to[k])
                ));
                break;
            }
            if !cons.compliant(&v) {
                result = Err(viol!("every joint vector produced by the constraint sampler is accepted by the same constraints", "draw {}: {:?} rejected by compliant(); from={:?} to={:?}", d, v, c.from, c.to));
                break;
            }
        }
        rs_opw_kinematics::verif_hooks::clear_rng();
        result?;
        ctx.class_n("draws", c.draws as u64);
        if nontrivial {
            ctx.nontrivial();
        }
        Ok(())
    }
}
