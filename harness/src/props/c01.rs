//! C01 — every IK solution returned reproduces the requested pose.

use crate::engine::*;
use crate::gen::*;
use crate::glue::*;
use crate::model::*;
use crate::{ensure, viol};
use proptest::prelude::*;
use rs_opw_kinematics::kinematic_traits::Kinematics;
use serde::{Deserialize, Serialize};

pub struct C01;

#[derive(Clone, Debug, Serialize, Deserialize)]
pub struct Case {
    pub robot: RobotSpec,
    pub pose: PoseGen,
    pub prev: PrevGen,
    /// 0 inverse, 1 inverse_continuing, 2 inverse_5dof(j6), 3 inverse_continuing_5dof
    pub entry: u8,
    pub j6: f64,
    /// call history: the same query is first put to this other robot (results ignored); answers must not depend on it
    #[serde(default)]
    pub other: Option<RobotSpec>,
    /// hand the requested rotation over in its other quaternion representative (-q: negative scalar part, the same rotation)
    #[serde(default)]
    pub neg_q: bool,
}

pub const ENTRY_NAMES: [&str; 4] = ["inverse", "inverse_continuing", "inverse_5dof", "inverse_continuing_5dof"];

/// Soundness of one returned vector against the oracle pose. `full` = rotation compared fully,
/// otherwise only position and tool axis.
pub fn check_solution(r: &RobotSpec, want: &Iso, s: &[f64; 6], full: bool, what: &str) -> Res {
    ensure!(s.iter().all(|x| x.is_finite()), "every returned joint value is finite", "{} returned {:?}", what, s);
    let got = r.fk(s);
    let tol_p = 1e-6 + 1e-9 * (1.0 + r.reach());
    let tol_a = 1e-6 + 1e-9;
    let dp = dist(&got.p, &want.p);
    ensure!(dp <= tol_p, "returned solution reproduces the requested position (1 um)", "{}: |dp|={:e} tol={:e} solution={:?} model_fk={:?} requested={:?}", what, dp, tol_p, s, got.p, want.p);
    if full {
        let da = rot_angle(&got.r, &want.r);
        ensure!(da <= tol_a, "returned solution reproduces the requested orientation (1 urad)", "{}: dang={:e} tol={:e} solution={:?}", what, da, tol_a, s);
    } else {
        let da = vec_angle(&got.z_axis(), &want.z_axis());
        ensure!(da <= tol_a, "returned solution reproduces the requested tool axis (1 urad, 5-DOF variant)", "{}: axis angle={:e} tol={:e} solution={:?}", what, da, tol_a, s);
    }
    Ok(())
}

pub fn call_entry(k: &dyn Kinematics, entry: u8, pose: &nalgebra::Isometry3<f64>, prev: &[f64; 6], j6: f64) -> Result<Vec<[f64; 6]>, String> {
    no_panic(|| match entry {
        0 => k.inverse(pose),
        1 => k.inverse_continuing(pose, prev),
        2 => k.inverse_5dof(pose, j6),
        _ => k.inverse_continuing_5dof(pose, prev),
    })
}

impl Property for C01 {
    type Case = Case;
    fn id(&self) -> &'static str {
        "C01"
    }
    fn rule(&self) -> String {
        "robots: all families (catalogue, realistic, negative, degenerate; 64 sign patterns; offsets; dof 5/6) x poses (model FK of a joint vector; wrist-singular q5=k*pi+delta; \
         elbow stretched; wrist centre on/near the J1 axis; moved outwards beyond reach; raw SE(3) incl. +-1e3 m; NaN/inf/1e300/subnormal components) x rotation handed over as q or -q x previous (source, random in +-2pi, +-100, \
         CONSTRAINT_CENTERED) x four entry points. Non-trivial: at least one solution was returned (each is verified through oracle M) or the pose is from a degenerate class \
         (singular/stretched/axis/outwards/non-finite). Distinct = distinct serialized cases."
            .into()
    }
    fn assumptions(&self) -> Vec<String> {
        vec![
            "oracle M validated against the recorded C++ cases (oracle_selftest)".into(),
            "tolerance: position 1e-6 + 1e-9*(1+reach) m, angle 1e-6 + 1e-9 rad (the solver's own acceptance band plus float slack)".into(),
            "for the 5-DOF entry points and dof=5 robots only position and tool axis are compared, as the property states".into(),
        ]
    }
    fn plan(&self, tier: Tier) -> Plan {
        Plan { workers: tier.pick(4, 16), cases_per_worker: tier.pick(250_000, 2_000_000), max_shrink_iters: 4000 }
    }
    fn selftest(&self) -> Result<serde_json::Value, String> {
        crate::selftest::model_vs_recorded()
    }
    fn strategy(&self, _tier: Tier) -> BoxedStrategy<Case> {
        (robot_any(DofChoice::Both), pose_any(), prev_any(), 0u8..4, prop_oneof![Just(0.0), -10.0..10.0f64], other_robot(DofChoice::Both, true), prop::bool::weighted(0.25))
            .prop_map(|(robot, pose, prev, entry, j6, other, neg_q)| {
                let other = resolve_other(&robot, other, true);
                Case { robot, pose, prev, entry, j6, other, neg_q }
            })
            .boxed()
    }
    fn check(&self, c: &Case, ctx: &mut Ctx) -> Res {
        let r = &c.robot;
        for cl in robot_class(r) {
            ctx.class(cl);
        }
        ctx.class(c.pose.class());
        ctx.class(&format!("entry:{}", ENTRY_NAMES[(c.entry % 4) as usize]));
        let k = opw(r);
        let mut na = c.pose.na(r);
        if c.neg_q {
            na.rotation = nalgebra::UnitQuaternion::new_unchecked(-na.rotation.into_inner());
            ctx.class("request rotation given as -q");
        }
        let src = c.pose.source_joints(r);
        let prev = c.prev.resolve(src);
        let what = ENTRY_NAMES[(c.entry % 4) as usize];
        if let Some(o) = &c.other {
            let ko = opw(o);
            let _ = call_entry(&ko, c.entry % 4, &na, &prev, c.j6).map_err(|m| viol!("inverse kinematics never panics", "{} on the other robot panicked: {}", what, m))?;
            // ... and the same robot was asked for the same pose through another entry point with other previous joints / J6
            let mut p2 = prev;
            for t in 0..6 {
                if p2[t].is_finite() {
                    p2[t] += 0.37 * (t as f64 + 1.0);
                }
            }
            let _ = call_entry(&k, (c.entry + 1) % 4, &na, &p2, c.j6 + 0.61).map_err(|m| viol!("inverse kinematics never panics", "{} panicked: {}", ENTRY_NAMES[((c.entry + 1) % 4) as usize], m))?;
            let _ = call_entry(&k, c.entry % 4, &na, &p2, c.j6 + 0.61).map_err(|m| viol!("inverse kinematics never panics", "{} panicked: {}", what, m))?;
            ctx.class("history:another robot answered the same query first");
        }
        let sols = call_entry(&k, c.entry % 4, &na, &prev, c.j6).map_err(|m| viol!("inverse kinematics never panics", "{} panicked: {}", what, m))?;
        ctx.class(&format!("solutions:{}", sols.len().min(9)));
        if c.other.is_some() {
            // ... and the answer does not change when the query is repeated
            let again = call_entry(&k, c.entry % 4, &na, &prev, c.j6).map_err(|m| viol!("inverse kinematics never panics", "{} panicked on the second call: {}", what, m))?;
            let same = again.len() == sols.len() && again.iter().zip(sols.iter()).all(|(a, b)| (0..6).all(|t| a[t].to_bits() == b[t].to_bits() || (a[t].is_nan() && b[t].is_nan())));
            ensure!(same, "the same query gives the same answer when repeated", "{}: first {:?} second {:?}", what, sols, again);
        }

        let want = c.pose.pose(r);
        let nonfinite_input = {
            let q = na.rotation.quaternion();
            let t = na.translation.vector;
            ![q.w, q.i, q.j, q.k, t.x, t.y, t.z].iter().all(|x| x.is_finite())
        };
        if nonfinite_input {
            ensure!(sols.is_empty(), "a non-finite pose yields an empty list", "{} returned {} solutions for {:?}", what, sols.len(), na);
            ctx.nontrivial();
            return Ok(());
        }
        // The oracle-side pose: for the finite members of the NonFinite class (1e300, subnormal) read it back from what was handed in.
        let want = match want {
            Some(w) => w,
            None => match from_na(&na) {
                Some(w) => w,
                None => {
                    ensure!(sols.is_empty(), "a pose without a finite rotation yields an empty list", "{} returned {} solutions", what, sols.len());
                    return Ok(());
                }
            },
        };
        let full = r.dof == 6 && (c.entry % 4) < 2;
        for s in &sols {
            check_solution(r, &want, s, full, what)?;
            if c.entry % 4 == 0 {
                // plain inverse: each angle normalised to [-pi, pi] (J6 of a 5-DOF robot is a fixed value)
                let upto = if r.dof == 5 { 5 } else { 6 };
                for t in 0..upto {
                    ensure!(s[t] >= -PI && s[t] <= PI, "plain inverse returns each angle normalised to [-pi, pi]", "joint {} = {} in {:?}", t + 1, s[t], s);
                }
            }
        }
        if !sols.is_empty() || !matches!(c.pose, PoseGen::Fk { .. } | PoseGen::Raw { .. }) {
            ctx.nontrivial();
        }
        Ok(())
    }
}
