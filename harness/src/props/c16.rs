//! C16 — parallelogram coupling is applied consistently in forward and inverse kinematics.

use crate::engine::*;
use crate::gen::*;
use crate::glue::*;
use crate::model::*;
use crate::props::c01::{call_entry, ENTRY_NAMES};
use crate::stack::*;
use crate::{ensure, viol};
use proptest::prelude::*;
use serde::{Deserialize, Serialize};
use std::sync::Arc;

pub struct C16;

#[derive(Clone, Debug, Serialize, Deserialize)]
pub struct Case {
    pub robot: RobotSpec,
    pub layers: Vec<Layer>,
    pub j: [f64; 6],
    pub prev: PrevGen,
    pub entry: u8,
    pub j6: f64,
    /// call history: the same stack with every coupling's scaling replaced by this value is evaluated on the same joints / pose first
    #[serde(default)]
    pub earlier_scaling: Option<f64>,
    /// the innermost robot carries joint limits: a plain (non-wrapping) window given as distances below / above the de-coupled generating joints
    #[serde(default)]
    pub window: Option<([f64; 6], [f64; 6])>,
}

/// The innermost robot of the case: with joint limits around the de-coupled generating vector when the case asks for them.
fn inner_robot(c: &Case, layers: &[Layer]) -> rs_opw_kinematics::kinematics_impl::OPWKinematics {
    match &c.window {
        None => opw(&c.robot),
        Some((lo, hi)) => {
            let inner = inner_joints(layers, &c.j);
            let centre: [f64; 6] = std::array::from_fn(|k| {
                let x = inner[k].rem_euclid(TWO_PI);
                if x > PI { x - TWO_PI } else { x }
            });
            let from: [f64; 6] = std::array::from_fn(|k| centre[k] - lo[k]);
            let to: [f64; 6] = std::array::from_fn(|k| centre[k] + hi[k]);
            opw_c(&c.robot, rs_opw_kinematics::constraints::Constraints::new(from, to, 0.0))
        }
    }
}

fn axialize(layers: &[Layer]) -> Vec<Layer> {
    layers
        .iter()
        .map(|l| match l {
            Layer::Tool(t) => Layer::Tool(IsoSpec { t: [0.0, 0.0, t.t[2]], axis: [0.0, 0.0, 1.0], angle: t.angle }),
            Layer::Frame(t) => Layer::Frame(IsoSpec { t: [0.0, 0.0, t.t[2]], axis: [0.0, 0.0, 1.0], angle: t.angle }),
            other => *other,
        })
        .collect()
}

fn check_case(c: &Case, ctx: &mut Ctx, enumerated: bool) -> Res {
    let r = &c.robot;
    let entry = c.entry % 4;
    let what = ENTRY_NAMES[entry as usize];
    let layers = if entry >= 2 { axialize(&c.layers) } else { c.layers.clone() };
    let name = stack_name(&layers);
    let kin = build_stack(Arc::new(inner_robot(c, &layers)), &layers);
    if c.window.is_some() {
        ctx.class("innermost robot with joint limits (plain windows around the de-coupled generating joints)");
    }
    let n_para = layers.iter().filter(|l| matches!(l, Layer::Para { .. })).count();
    let scale_max = layers.iter().map(|l| if let Layer::Para { scaling, .. } = l { scaling.abs() } else { 0.0 }).fold(0.0, f64::max);
    let qmax = c.j.iter().fold(0.0f64, |a, b| a.max(b.abs())) * (1.0 + scale_max).powi(n_para as i32);
    let size = r.reach() + size_of(&layers);
    let tol9 = 1e-9 * (1.0 + size) * (1.0 + qmax * 1e-3);

    // forward = inner stack at the de-coupled joints
    let tcp = model_forward(r, &layers, &c.j);
    if let Some(sc) = c.earlier_scaling {
        let l2: Vec<Layer> = layers.iter().map(|l| if let Layer::Para { driven, coupled, .. } = l { Layer::Para { driven: *driven, coupled: *coupled, scaling: sc } } else { *l }).collect();
        let k2 = build_stack(Arc::new(inner_robot(c, &l2)), &l2);
        let _ = no_panic(|| k2.forward(&c.j)).map_err(|m| viol!("no panic", "forward (earlier stack): {}", m))?;
        let _ = no_panic(|| k2.forward_with_joint_poses(&c.j)).map_err(|m| viol!("no panic", "forward_with_joint_poses (earlier stack): {}", m))?;
        let _ = call_entry(k2.as_ref(), entry, &to_na(&tcp), &c.prev.resolve(Some(c.j)), c.j6).map_err(|m| viol!("no panic", "{} (earlier stack): {}", what, m))?;
        ctx.class("history: the same joints / pose went through a stack with another scaling first");
    }
    let f = no_panic(|| kin.forward(&c.j)).map_err(|m| viol!("no panic", "forward: {}", m))?;
    let f = from_na(&f).ok_or_else(|| viol!("forward finite", "{:?}", f))?;
    let dp = dist(&f.p, &tcp.p);
    let da = rot_angle(&f.r, &tcp.r);
    ensure!(dp <= tol9 && da <= 1e-9 * (1.0 + qmax * 1e-3), "forward pose is the inner robot's pose with the coupled joint reduced by scaling * driven", "stack {}: dp={:e} dang={:e} at {:?}", name, dp, da, c.j);
    let lm = model_links(r, &layers, &c.j);
    let links = no_panic(|| kin.forward_with_joint_poses(&c.j)).map_err(|m| viol!("no panic", "forward_with_joint_poses: {}", m))?;
    for i in 0..6 {
        let l = from_na(&links[i]).ok_or_else(|| viol!("links finite", "{:?}", links[i]))?;
        let dp = dist(&l.p, &lm[i].p);
        let da = rot_angle(&l.r, &lm[i].r);
        ensure!(dp <= tol9 && da <= 1e-9 * (1.0 + qmax * 1e-3), "the same holds for all link poses", "stack {} link {}: dp={:e} dang={:e}", name, i + 1, dp, da);
    }

    // inverse: every answer maps back through the wrapper's forward onto the requested pose
    let na = to_na(&tcp);
    let p = c.prev.resolve(Some(c.j));
    let sols = call_entry(kin.as_ref(), entry, &na, &p, c.j6).map_err(|m| viol!("no panic", "{}: {}", what, m))?;
    let tol_p = back_tol_p(size, &layers);
    for s in &sols {
        ensure!(s.iter().all(|x| x.is_finite()), "answers finite", "{:?}", s);
        let back = model_forward(r, &layers, s);
        let dp = dist(&back.p, &tcp.p);
        ensure!(dp <= tol_p, "every inverse answer maps back through the wrapper's forward onto the requested pose (position)", "{} through {}: |dp|={:e} tol {:e} answer {:?}", what, name, dp, tol_p, s);
        if entry < 2 {
            let da = rot_angle(&back.r, &tcp.r);
            ensure!(da <= 1e-6 + 1e-9, "every inverse answer maps back through the wrapper's forward onto the requested pose (orientation)", "{} through {}: dang={:e} answer {:?}", what, name, da, s);
        }
        // and through the library's own forward of the same stack (wrapper consistency)
        let lf = no_panic(|| kin.forward(s)).map_err(|m| viol!("no panic", "forward: {}", m))?;
        let lf = from_na(&lf).ok_or_else(|| viol!("forward finite", "{:?}", lf))?;
        ensure!(dist(&lf.p, &tcp.p) <= tol_p, "inverse and forward of the wrapper are mutually consistent", "{} through {}: |dp|={:e}", what, name, dist(&lf.p, &tcp.p));
    }
    // the generating vector is found again (outside singularity margins of the inner joints; 6-DOF entries)
    let inner = inner_joints(&layers, &c.j);
    if entry == 0 && crate::props::c02::margins_ok(r, &inner).is_ok() {
        let found = sols.iter().any(|s| joints_circ_dist(&inner_joints(&layers, s), &inner) <= 1e-6);
        ensure!(found, "the coupled generating vector is among the inverse answers", "inverse through {}: {:?} (inner {:?}) not found in {:?}", name, c.j, inner, sols);
    }
    if !enumerated {
        ctx.class(&format!("couplings:{}", n_para));
        ctx.class(&format!("entry:{}", what));
        if layers.iter().any(|l| !matches!(l, Layer::Para { .. })) {
            ctx.class("nested-with-tool/base/frame");
        }
    }
    if !sols.is_empty() {
        ctx.nontrivial();
    }
    Ok(())
}

impl Property for C16 {
    type Case = Case;
    fn id(&self) -> &'static str {
        "C16"
    }
    fn rule(&self) -> String {
        "all 30 (driven != coupled) index pairs enumerated with scalings {1, -1, 0.5, 0} x catalogue robots x four entry points; random: 1..2 couplings with scaling in [-2,2] u {0,1,-1}, nested with Tool/Base/Frame (depth <= 3) x robots (bare, or with joint limits given as plain windows around the de-coupled generating joints) x joint vectors x previous x four entry points. \
         Non-trivial: the inverse call returned at least one answer (each mapped back through the hand-composed coupled forward)."
            .into()
    }
    fn assumptions(&self) -> Vec<String> {
        vec!["oracle: model FK of the inner stack at q' with q'[coupled] = q[coupled] - scaling*q[driven], couplings applied outer-first".into()]
    }
    fn plan(&self, tier: Tier) -> Plan {
        Plan { workers: tier.pick(4, 16), cases_per_worker: tier.pick(50_000, 300_000), max_shrink_iters: 3000 }
    }
    fn selftest(&self) -> Result<serde_json::Value, String> {
        crate::selftest::model_vs_recorded()
    }
    fn enumerate(&self, _tier: Tier, ctx: &mut Ctx) -> Result<(), (Case, Violation)> {
        let j = [0.3, -0.4, 0.5, 0.6, 0.7, -0.8];
        let cat = catalogue();
        let mut n = 0;
        for driven in 0..6u8 {
            for coupled in 0..6u8 {
                if driven == coupled {
                    continue;
                }
                for (si, scaling) in [1.0, -1.0, 0.5, 0.0].iter().enumerate() {
                    for entry in 0..4u8 {
                        let robot = cat[(n + si) % cat.len()].1;
                        n += 1;
                        let case = Case { robot, layers: vec![Layer::Para { driven, coupled, scaling: *scaling }], j, prev: PrevGen::Source, entry, j6: 0.25, earlier_scaling: None, window: if n % 3 == 0 { Some(([0.5; 6], [0.4; 6])) } else { None } };
                        ctx.evaluations += 1;
                        if let Err(v) = check_case(&case, ctx, true) {
                            return Err((case, v));
                        }
                        ctx.distinct_extra += 1;
                    }
                }
            }
        }
        ctx.class_n("enumerated:(driven,coupled) pairs x scalings x entries", n as u64);
        Ok(())
    }
    fn strategy(&self, _tier: Tier) -> BoxedStrategy<Case> {
        let layers = prop_oneof![
            3 => para_strategy().prop_map(|p| vec![p]),
            2 => (para_strategy(), para_strategy()).prop_map(|(a, b)| vec![a, b]),
            3 => (para_strategy(), tbf_layer(1.0), any::<bool>()).prop_map(|(p, t, o)| if o { vec![p, t] } else { vec![t, p] }),
            2 => (para_strategy(), tbf_layer(1.0), para_strategy()).prop_map(|(a, t, b)| vec![a, t, b]),
        ];
        (prop_oneof![3 => robot_sane(DofChoice::Six), 1 => robot_negative(DofChoice::Six)], layers, joints_mixed(), prev_2pi(), 0u8..4, -3.0..3.0f64, prop_oneof![3 => Just(None), 1 => (-2.0..2.0f64).prop_map(Some)], prop_oneof![2 => Just(None), 1 => (prop::array::uniform6(0.2..1.4f64), prop::array::uniform6(0.2..1.4f64)).prop_map(Some)])
            .prop_map(|(robot, layers, j, prev, entry, j6, earlier_scaling, window)| Case { robot, layers, j, prev, entry, j6, earlier_scaling, window })
            .boxed()
    }
    fn check(&self, c: &Case, ctx: &mut Ctx) -> Res {
        check_case(c, ctx, false)
    }
}
