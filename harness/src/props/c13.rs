//! C13 — a returned RRT path joins start to goal through collision-free configurations.

use crate::arc::*;
use crate::engine::*;
use crate::gen::*;
use crate::scene::*;
use crate::{ensure, viol};
use proptest::prelude::*;
use rs_opw_kinematics::constraints::Constraints;
use rs_opw_kinematics::kinematic_traits::{Joints, Kinematics, Pose, Singularity, Solutions};
use rs_opw_kinematics::kinematics_with_shape::KinematicsWithShape;
use rs_opw_kinematics::rrt::RRTPlanner;
use serde::{Deserialize, Serialize};
use std::sync::atomic::{AtomicBool, AtomicU64, Ordering};
use std::sync::Arc;

pub struct C13;

#[derive(Clone, Debug, Serialize, Deserialize)]
pub struct Case {
    pub scene: Scene,
    pub limits: LimitSpec,
    /// start / goal as fractions of the limit box
    pub start_u: [f64; 6],
    pub goal_u: [f64; 6],
    pub step_deg: f64,
    pub max_try: u32,
    pub rng_seed: u64,
    /// 0 never, 1 before the call, 2 at the N-th collision query
    pub cancel: u8,
    pub cancel_at: u32,
    /// goal = start + close * step * direction (0 = ordinary far goal): pairs closer than one planner step, incl. start == goal
    #[serde(default)]
    pub close: Option<f64>,
}

/// Harness-side Kinematics wrapper: counts collision queries (one forward_with_joint_poses call each), raises the stop flag at the
/// N-th query and notes how many random draws the sampler had made by then (verif_hooks::draws, same thread).
pub struct Counting {
    pub inner: Arc<dyn Kinematics>,
    pub stop: Arc<AtomicBool>,
    pub raise_at: u64, // 0 = never
    pub queries: AtomicU64,
    pub draws_at_raise: AtomicU64,
    pub raised: AtomicBool,
}

impl Kinematics for Counting {
    fn inverse(&self, pose: &Pose) -> Solutions {
        self.inner.inverse(pose)
    }
    fn inverse_continuing(&self, pose: &Pose, previous: &Joints) -> Solutions {
        self.inner.inverse_continuing(pose, previous)
    }
    fn forward(&self, qs: &Joints) -> Pose {
        self.inner.forward(qs)
    }
    fn inverse_5dof(&self, pose: &Pose, j6: f64) -> Solutions {
        self.inner.inverse_5dof(pose, j6)
    }
    fn inverse_continuing_5dof(&self, pose: &Pose, prev: &Joints) -> Solutions {
        self.inner.inverse_continuing_5dof(pose, prev)
    }
    fn constraints(&self) -> &Option<Constraints> {
        self.inner.constraints()
    }
    fn kinematic_singularity(&self, qs: &Joints) -> Option<Singularity> {
        self.inner.kinematic_singularity(qs)
    }
    fn forward_with_joint_poses(&self, joints: &Joints) -> [Pose; 6] {
        let n = self.queries.fetch_add(1, Ordering::SeqCst) + 1;
        if self.raise_at != 0 && n == self.raise_at {
            self.stop.store(true, Ordering::SeqCst);
            self.draws_at_raise.store(rs_opw_kinematics::verif_hooks::draws(), Ordering::SeqCst);
            self.raised.store(true, Ordering::SeqCst);
        }
        self.inner.forward_with_joint_poses(joints)
    }
}

pub fn limit_box() -> BoxedStrategy<LimitSpec> {
    // non-wrapping limits, from < to
    prop::array::uniform6((0.8..3.0f64, 0.8..3.0f64))
        .prop_map(|w| {
            let mut from = [0.0; 6];
            let mut to = [0.0; 6];
            for k in 0..6 {
                from[k] = -w[k].0;
                to[k] = w[k].1;
            }
            LimitSpec { from, to, weight: 0.0 }
        })
        .boxed()
}

/// Non-wrapping windows (from < to) that need not be centred near zero: some reach beyond +-pi (e.g. 90..270 degrees).
pub fn limit_box_shifted() -> BoxedStrategy<LimitSpec> {
    (limit_box(), prop::array::uniform6(prop_oneof![2 => Just(0.0), 1 => -3.0..3.0f64]), prop::array::uniform6(0.3..1.0f64))
        .prop_map(|(l, shift, shrink)| {
            let mut from = [0.0; 6];
            let mut to = [0.0; 6];
            for k in 0..6 {
                // a shifted window is also narrowed (at most about a turn wide) so that it stays a proper window
                let (f, t) = if shift[k] == 0.0 { (l.from[k], l.to[k]) } else { (l.from[k] * shrink[k], l.to[k] * shrink[k]) };
                from[k] = f + shift[k];
                to[k] = t + shift[k];
            }
            LimitSpec { from, to, weight: 0.0 }
        })
        .boxed()
}

pub fn planning_scene(max_env: usize) -> BoxedStrategy<Scene> {
    scene_strategy(max_env)
        .prop_map(|mut scene| {
            scene.slim = true;
            if scene.safety.mode % 3 == 2 {
                scene.safety.mode = 0;
            }
            scene.safety.to_robot_default = scene.safety.to_robot_default.min(0.02);
            scene.safety.to_environment = scene.safety.to_environment.min(0.05);
            for sp in scene.safety.special.iter_mut() {
                if sp.2 > 0.0 {
                    sp.2 = sp.2.min(0.03);
                }
            }
            for r in scene.link_r.iter_mut() {
                *r = r.min(0.04);
            }
            for e in scene.env.iter_mut() {
                // obstacles float in the workspace
                e.attach = 7;
                e.half = [e.half[0].min(0.2), e.half[1].min(0.2), e.half[2].min(0.2)];
            }
            scene
        })
        .boxed()
}

fn fine_for_close() -> BoxedStrategy<Case> {
    (planning_scene(1), prop_oneof![2 => limit_box(), 1 => limit_box_shifted()], prop::array::uniform6(0.1..0.9f64), prop::array::uniform6(-1.0..1.0f64), 1.0..10.0f64, prop_oneof![Just(0u32), Just(1u32), Just(100u32)], any::<u64>())
        .prop_map(|(scene, limits, start_u, dir, step_deg, max_try, rng_seed)| Case { scene, limits, start_u, goal_u: dir, step_deg, max_try, rng_seed, cancel: 0, cancel_at: 1, close: Some(0.5) })
        .boxed()
}

impl Property for C13 {
    type Case = Case;
    fn id(&self) -> &'static str {
        "C13"
    }
    fn rule(&self) -> String {
        "slim box-bodied robots with optional tool/base + 0..3 free-floating obstacles + non-wrapping limits (every other window set is shifted, so that windows reach beyond +-pi, e.g. 90..270 degrees); start/goal drawn inside the limit box (in one case in four with some joints exactly on a limit) and kept when the robot reports them free (rejections counted); step 1..10 degrees; max_try in {1,10,100,2000}; \
         library RNG seeded per case through verif_hooks; cancellation never / before the call / at the N-th collision query (made deterministic by a counting Kinematics wrapper owned by the harness). \
         A second 'coarse' regime uses narrow limit windows (some joints +-0.05..0.2 rad), steps of 12..40 degrees and obstacles attached next to the arm, so that random samples often land within one step of a tree vertex and a noticeable share of the window collides. A 'huge step' regime (2 cases in 27) uses steps of 60..170 degrees (above one radian) between opposite corners of the limit box. A 'long relocation' regime (1 case in 27) puts start and goal at opposite corners of the limit box with a step of 0.2..0.6 degrees (300..3000 planner steps apart). Non-trivial: a returned path with >= 4 nodes (>= 3 in the coarse regime) in a scene with >= 1 obstacle, a path of more than 257 nodes, or a cancellation case."
            .into()
    }
    fn assumptions(&self) -> Vec<String> {
        vec![
            "every node is re-checked with the same robot's collides() (decided against brute force by C10) and with oracle A for the limits".into(),
            "'at most three planner steps apart' = Euclidean joint-space distance <= 3*step + 1e-9".into(),
            "cancellation during planning: no new iteration may begin after the flag is raised (an iteration starts by drawing a random sample; draws are counted by the verif_hooks generator wrapper); Ok is tolerated for the iteration in flight".into(),
        ]
    }
    fn plan(&self, tier: Tier) -> Plan {
        Plan { workers: tier.pick(4, 16), cases_per_worker: tier.pick(400, 1_500), max_shrink_iters: 100 }
    }
    fn strategy(&self, _tier: Tier) -> BoxedStrategy<Case> {
        // "coarse" regime: narrow limit windows, large steps and an obstacle attached next to the arm at the window centre, so that
        // random samples often fall within one step of a tree vertex and a noticeable share of the window collides
        let narrow_box = prop::array::uniform6(prop_oneof![2 => (0.05..0.2f64, 0.05..0.2f64), 2 => (0.3..0.8f64, 0.3..0.8f64), 1 => (0.8..1.6f64, 0.8..1.6f64)]).prop_map(|w| {
            let mut from = [0.0; 6];
            let mut to = [0.0; 6];
            for k in 0..6 {
                from[k] = -w[k].0;
                to[k] = w[k].1;
            }
            LimitSpec { from, to, weight: 0.0 }
        });
        let coarse = (
            planning_scene(2),
            narrow_box,
            prop::array::uniform6(0.02..0.98f64),
            prop::array::uniform6(0.02..0.98f64),
            12.0..40.0f64,
            prop_oneof![1 => Just(10u32), 2 => Just(100u32), 2 => Just(1000u32)],
            any::<u64>(),
            (prop::collection::vec((1u8..7, prop_oneof![Just(-0.3), Just(0.3), Just(0.8), Just(1.25)], 0u8..6), 1..3)),
        )
            .prop_map(|(mut scene, limits, start_u, goal_u, step_deg, max_try, rng_seed, obst)| {
                // obstacles attached to a link / the tool at the posture built with j_ref = 0 (inside every window)
                scene.env.truncate(obst.len());
                while scene.env.len() < obst.len() {
                    scene.env.push(EnvSpec { attach: 3, gap_factor: 0.5, half: [0.1, 0.1, 0.1], side: 0, spin: 0.0, fan: 0, free_pose: IsoSpec::identity() });
                }
                for (e, (attach, gap, side)) in scene.env.iter_mut().zip(obst.iter()) {
                    e.attach = *attach;
                    e.gap_factor = *gap;
                    e.side = *side;
                }
                Case { scene, limits, start_u, goal_u, step_deg, max_try, rng_seed, cancel: 0, cancel_at: 1, close: None }
            });
        let fine = (
            planning_scene(3),
            prop_oneof![1 => limit_box(), 1 => limit_box_shifted()],
            prop::array::uniform6(0.05..0.95f64),
            prop::array::uniform6(0.05..0.95f64),
            1.0..10.0f64,
            prop_oneof![1 => Just(1u32), 1 => Just(10u32), 2 => Just(100u32), 3 => Just(2000u32)],
            any::<u64>(),
            prop_oneof![5 => Just(0u8), 1 => Just(1u8), 2 => Just(2u8)],
            prop_oneof![4 => any::<u16>().prop_map(|i| [1u32, 2, 3, 5, 10, 30, 100][crate::engine::pick_idx(i, 7)]), 1 => 1u32..400],
        )
            .prop_map(|(scene, limits, mut start_u, mut goal_u, step_deg, max_try, rng_seed, cancel, cancel_at)| {
                // one case in four: some joints of start and goal sit exactly on a limit (limits are inclusive)
                if rng_seed % 4 == 0 {
                    for j in 0..6 {
                        if (rng_seed >> (8 + 2 * j)) & 1 != 0 {
                            let mut side = ((rng_seed >> (9 + 2 * j)) & 1) as f64;
                            let mut both = (rng_seed >> (24 + j)) & 1 != 0;
                            // a window that reaches beyond +pi (-pi): start and goal on the opposite stop, the one a mis-wrapped sample would pull the tree across
                            if limits.to[j] > std::f64::consts::PI {
                                side = 0.0;
                                both = true;
                            } else if limits.from[j] < -std::f64::consts::PI {
                                side = 1.0;
                                both = true;
                            }
                            start_u[j] = side;
                            if both {
                                goal_u[j] = side;
                            }
                        }
                    }
                }
                Case { scene, limits, start_u, goal_u, step_deg, max_try, rng_seed, cancel, cancel_at, close: None }
            });
        // close pairs: goal within a fraction of one step of the start (equal to it, or a hair - 1e-8..1e-6 rad - apart), with every cancellation mode
        let near = (fine_for_close(), prop_oneof![1 => Just(0.0), 3 => 0.05..0.95f64, 1 => 1.0..3.0f64, 2 => 1e-7..2e-5f64], 0u8..3).prop_map(|(mut c, f, cancel)| {
            c.close = Some(f);
            c.cancel = cancel;
            c.cancel_at = 1;
            c
        });
        // long relocations with a fine step: start and goal at opposite corners of the limit box, several hundred planner steps apart
        let long = (planning_scene(0), limit_box(), prop::array::uniform6(0.02..0.12f64), prop::array::uniform6(0.88..0.98f64), 0.2..0.6f64, any::<u64>(), any::<u8>()).prop_map(|(scene, limits, a, b, step_deg, rng_seed, swap)| {
            // per joint, which end the start takes
            let start_u: [f64; 6] = std::array::from_fn(|k| if swap & (1 << k) != 0 { b[k] } else { a[k] });
            let goal_u: [f64; 6] = std::array::from_fn(|k| if swap & (1 << k) != 0 { a[k] } else { b[k] });
            Case { scene, limits, start_u, goal_u, step_deg, max_try: 2000, rng_seed, cancel: 0, cancel_at: 1, close: None }
        });
        // very large planner steps (above one radian) across the whole limit box
        let huge = (planning_scene(1), limit_box(), prop::array::uniform6(0.02..0.2f64), prop::array::uniform6(0.8..0.98f64), 60.0..170.0f64, any::<u64>(), any::<u8>()).prop_map(|(scene, limits, a, b, step_deg, rng_seed, swap)| {
            let start_u: [f64; 6] = std::array::from_fn(|k| if swap & (1 << k) != 0 { b[k] } else { a[k] });
            let goal_u: [f64; 6] = std::array::from_fn(|k| if swap & (1 << k) != 0 { a[k] } else { b[k] });
            Case { scene, limits, start_u, goal_u, step_deg, max_try: 200, rng_seed, cancel: 0, cancel_at: 1, close: None }
        });
        prop_oneof![12 => fine, 8 => coarse, 4 => near, 1 => long, 2 => huge].boxed()
    }
    fn check(&self, c: &Case, ctx: &mut Ctx) -> Res {
        if c.scene.safety.ambiguous() {
            ctx.exclude("ambiguous safety table");
            return Ok(());
        }
        let mut scene = c.scene.clone();
        scene.limits = Some(c.limits);
        let built = scene.build(&[0.0; 6]);
        let l = &c.limits;
        if c.start_u.iter().chain(c.goal_u.iter()).any(|u| *u == 0.0 || *u == 1.0) && c.close.is_none() {
            ctx.class("start / goal: a joint exactly on a limit");
        }
        if (0..6).any(|k| l.from[k] < -std::f64::consts::PI || l.to[k] > std::f64::consts::PI) {
            ctx.class("limits: a window reaches beyond +-pi");
        }
        // wrap the kinematics in the counting wrapper
        let stop = Arc::new(AtomicBool::new(false));
        let counting = Arc::new(Counting {
            inner: built.robot.kinematics.clone(),
            stop: stop.clone(),
            raise_at: if c.cancel % 3 == 2 { c.cancel_at as u64 } else { 0 },
            queries: AtomicU64::new(0),
            draws_at_raise: AtomicU64::new(0),
            raised: AtomicBool::new(false),
        });
        let mut robot = built.robot;
        robot.kinematics = counting.clone();
        // bounded deterministic search for free end points: the k-th candidate shifts the fractions by k * golden ratio (mod 1)
        let pick = |u0: &[f64; 6], salt: f64| -> Option<[f64; 6]> {
            for k in 0..10 {
                let q: [f64; 6] = std::array::from_fn(|j| {
                    let u = if k == 0 { u0[j] } else { 0.03 + 0.94 * (u0[j] + k as f64 * 0.6180339887498949 * (1.0 + salt + j as f64 * 0.37)).fract() };
                    l.from[j] + u * (l.to[j] - l.from[j])
                });
                if !robot.collides(&q) {
                    return Some(q);
                }
            }
            None
        };
        let step = c.step_deg.to_radians();
        let (start, goal) = match c.close {
            None => match (pick(&c.start_u, 0.0), pick(&c.goal_u, 0.5)) {
                (Some(a), Some(b)) => (a, b),
                _ => {
                    ctx.exclude("no collision-free start/goal among 10 candidates each");
                    return Ok(());
                }
            },
            Some(f) => {
                // goal_u is a direction here
                let a = match pick(&c.start_u, 0.0) {
                    Some(a) => a,
                    None => {
                        ctx.exclude("no collision-free start among 10 candidates");
                        return Ok(());
                    }
                };
                let n = (0..6).map(|k| c.goal_u[k] * c.goal_u[k]).sum::<f64>().sqrt().max(1e-9);
                let b: [f64; 6] = std::array::from_fn(|k| (a[k] + f * step * c.goal_u[k] / n).max(l.from[k]).min(l.to[k]));
                if robot.collides(&b) {
                    ctx.exclude("close goal collides");
                    return Ok(());
                }
                ctx.class(if f == 0.0 { "close-pair:start==goal" } else if f < 1e-4 { "close-pair:a hair apart (goal differs from the start by rounding-size amounts, well below a micro-radian..micro-radians)" } else if f < 1.0 { "close-pair:within one step" } else { "close-pair:1..3 steps" });
                (a, b)
            }
        };
        counting.queries.store(0, Ordering::SeqCst);
        let planner = RRTPlanner { step_size_joint_space: step, max_try: c.max_try as usize, debug: false };
        if c.cancel % 3 == 1 {
            stop.store(true, Ordering::SeqCst);
        }
        rs_opw_kinematics::verif_hooks::seed_rng(c.rng_seed);
        let res = no_panic(|| planner.plan_rrt(&start, &goal, &robot, &stop));
        rs_opw_kinematics::verif_hooks::clear_rng();
        let res = res.map_err(|m| viol!("planning never panics", "plan_rrt: {}", m))?;
        let raised_during = counting.raised.load(Ordering::SeqCst);
        // random draws of the sampler since the flag was raised (every planner iteration begins by drawing a new random sample)
        let after = rs_opw_kinematics::verif_hooks::draws().wrapping_sub(counting.draws_at_raise.load(Ordering::SeqCst));
        match c.cancel % 3 {
            1 => {
                ensure!(res.is_err(), "a raised cancellation flag makes the planner return an error instead of a path", "flag raised before the call, got a path of {} nodes", res.as_ref().map(|p| p.len()).unwrap_or(0));
                // the flag belongs to the caller: it stays raised, and every further call given the same flag is refused as well
                ensure!(stop.load(Ordering::SeqCst), "a raised cancellation flag makes the planner return an error instead of a path", "the planner lowered the caller's cancellation flag");
                for n in 0..2 {
                    rs_opw_kinematics::verif_hooks::seed_rng(c.rng_seed.wrapping_add(n + 1));
                    let again = no_panic(|| planner.plan_rrt(&start, &goal, &robot, &stop));
                    rs_opw_kinematics::verif_hooks::clear_rng();
                    let again = again.map_err(|m| viol!("planning never panics", "plan_rrt: {}", m))?;
                    ensure!(again.is_err(), "a raised cancellation flag makes the planner return an error instead of a path", "call #{} with the same, still raised flag returned a path of {} nodes", n + 2, again.as_ref().map(|p| p.len()).unwrap_or(0));
                }
                ctx.class("cancel:before -> Err");
                ctx.nontrivial();
                return Ok(());
            }
            2 if raised_during => {
                ensure!(after == 0, "after the cancellation flag is raised no further planner iteration begins", "the sampler made {} random draw(s) after the flag was raised at collision query {} (a new iteration draws a new sample)", after, c.cancel_at);
                // the flag belongs to the caller: it stays raised, and a further call given the same flag is refused
                ensure!(stop.load(Ordering::SeqCst), "a raised cancellation flag makes the planner return an error instead of a path", "the planner lowered the caller's cancellation flag");
                rs_opw_kinematics::verif_hooks::seed_rng(c.rng_seed.wrapping_add(1));
                let again = no_panic(|| planner.plan_rrt(&start, &goal, &robot, &stop));
                rs_opw_kinematics::verif_hooks::clear_rng();
                let again = again.map_err(|m| viol!("planning never panics", "plan_rrt: {}", m))?;
                ensure!(again.is_err(), "a raised cancellation flag makes the planner return an error instead of a path", "a second call with the same, still raised flag returned a path of {} nodes", again.as_ref().map(|p| p.len()).unwrap_or(0));
                ctx.class(if res.is_ok() { "cancel:during -> Ok (iteration in flight)" } else { "cancel:during -> Err" });
                ctx.nontrivial();
            }
            _ => {}
        }
        match &res {
            Err(_) => {
                ctx.class("outcome:Err");
                Ok(())
            }
            Ok(path) => {
                ctx.class("outcome:Ok");
                ensure!(!path.is_empty(), "the path contains start and goal", "empty path");
                ensure!((0..6).all(|k| path[0][k].to_bits() == start[k].to_bits()), "the path begins with the start vector exactly", "first node {:?} start {:?}", path[0], start);
                let last = path[path.len() - 1];
                ensure!((0..6).all(|k| last[k].to_bits() == goal[k].to_bits()), "the path ends with the goal vector exactly", "last node {:?} goal {:?}", last, goal);
                for (i, n) in path.iter().enumerate() {
                    ensure!(n.iter().all(|x| x.is_finite()), "nodes are finite", "node {} = {:?}", i, n);
                    let col = no_panic(|| robot.collides(n)).map_err(|m| viol!("no panic", "collides: {}", m))?;
                    ensure!(!col, "every node of a returned path is reported collision-free by the same robot", "node {} of {} collides: {:?} (pairs {:?})", i, path.len(), n, robot.collision_details(n).iter().map(crate::props::c10::pair_name).collect::<Vec<_>>());
                    ensure!(arc_member6(&l.from, &l.to, n, 1e-9) != Verdict::Out, "with non-wrapping limits every node is within limits", "node {} = {:?} limits from {:?} to {:?}", i, n, l.from, l.to);
                }
                for (i, w) in path.windows(2).enumerate() {
                    let d = (0..6).map(|k| (w[0][k] - w[1][k]).powi(2)).sum::<f64>().sqrt();
                    ensure!(d <= 3.0 * step + 1e-9, "consecutive nodes are at most three planner steps apart", "nodes {} and {}: distance {} > 3*{}", i, i + 1, d, step);
                }
                ctx.class(if c.step_deg > 57.3 { "regime:steps above one radian" } else if c.step_deg > 10.5 { "regime:coarse steps / narrow windows" } else { "regime:fine steps" });
                ctx.class(&format!("path-nodes:{}", if path.len() < 4 { "<4" } else if path.len() < 20 { "4..19" } else { ">=20" }));
                if path.len() > 257 {
                    ctx.class("path:longer than 256 nodes (fine step, long relocation)");
                }
                if ((path.len() >= 4 || (c.step_deg > 10.5 && path.len() >= 3)) && !c.scene.env.is_empty()) || path.len() > 257 {
                    ctx.nontrivial();
                }
                Ok(())
            }
        }
    }
}
