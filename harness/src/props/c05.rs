//! C05 — wrist singularity is detected geometrically and does not make J4/J6 jump.

use crate::engine::*;
use crate::gen::*;
use crate::glue::*;
use crate::model::*;
use crate::props::c01::check_solution;
use crate::stack::*;
use crate::{ensure, viol};
use proptest::prelude::*;
use rs_opw_kinematics::kinematic_traits::{Kinematics, Singularity};
use serde::{Deserialize, Serialize};
use std::sync::Arc;

pub struct C05;

pub const THR: f64 = 0.01 * std::f64::consts::PI / 180.0;

const DELTAS: [f64; 9] = [0.0, 1e-12, 1e-7, 0.5, 0.99, 1.01, 2.0, 10.0, 100.0]; // entries >= 0.5 are multiples of THR

#[derive(Clone, Debug, Serialize, Deserialize)]
pub enum Case {
    /// J5 such that the model angle q5 = k*pi + delta
    Detect { robot: RobotSpec, j: [f64; 6], k: i8, delta: f64, layers: Vec<Layer> },
    /// q5 = 0 exactly; previous = the joints with J4/J6 perturbed by d4/d6
    /// lim: optional limits. J1..J3, J5 whole circle; J4 and J6 an arc centred at the previous value, half width = |d4|+|d6|+0.2 + u*(2.9-that),
    /// written as from<to (form 0), in the wrap-around form from>to (1), or a whole turn up/down (2, 3)
    Continuity {
        robot: RobotSpec,
        j: [f64; 6],
        d4: f64,
        d6: f64,
        #[serde(default)]
        lim: Option<(f64, u8)>,
        /// the singular posture has model q5 = k*pi (0: wrist straight, +-1: wrist folded back)
        #[serde(default)]
        k: i8,
    },
}

fn delta_value(i: usize, neg: bool) -> f64 {
    let d = if i < 3 { DELTAS[i] } else { DELTAS[i] * THR };
    if neg {
        -d
    } else {
        d
    }
}

fn detect(robot: &RobotSpec, j: &[f64; 6], k: i8, delta: f64, layers: &[Layer], ctx: &mut Ctx) -> Res {
    let jj = wrist_joints(robot, j, k, delta);
    // oracle: angle between the axes of joints 4 and 6 taken from the model link frames
    let links = robot.links(&jj);
    let z4 = links[3].z_axis();
    let z6 = links[5].z_axis();
    let ang = norm(&cross(&z4, &z6)).min(1.0).asin();
    let expect = if ang < THR * (1.0 - 1e-6) {
        Some(true)
    } else if ang > THR * (1.0 + 1e-6) {
        Some(false)
    } else {
        None
    };
    let kin = build_stack(Arc::new(opw(robot)), layers);
    if k % 2 != 0 {
        // call history: a robot with the opposite J5 convention (and a shifted J5 offset) is asked about the same joints first
        let mut o = *robot;
        o.signs[4] = -o.signs[4];
        o.offsets[4] += 0.3;
        let _ = no_panic(|| opw(&o).kinematic_singularity(&jj)).map_err(|m| viol!("no panic", "kinematic_singularity (other robot): {}", m))?;
        ctx.class("detect:history another robot asked about the same joints first");
    }
    let got = no_panic(|| kin.kinematic_singularity(&jj)).map_err(|m| viol!("no panic", "kinematic_singularity: {}", m))?;
    let got_b = matches!(got, Some(Singularity::A));
    match expect {
        None => ctx.exclude("detection: inside the 1e-6 relative sliver around the 0.01 degree threshold"),
        Some(e) => {
            ctx.class(if e { "detect:expected-singular" } else { "detect:expected-regular" });
            if delta < 0.0 {
                ctx.class("detect:negative-side");
            }
            if robot.offsets[4] != 0.0 {
                ctx.class("detect:J5-offset");
            }
            if robot.signs[4] < 0 {
                ctx.class("detect:J5-negative-sign");
            }
            if !layers.is_empty() {
                ctx.class("detect:through-wrappers");
            }
            ensure!(
                got_b == e,
                "a configuration is reported wrist-singular exactly when the axes of joints 4 and 6 are collinear (0.01 degree band, either side)",
                "J5={} (model q5 = {}*pi + {:e}; sign5={} offset5={}): axes angle {:e} rad, threshold {:e}: reported {:?}, expected singular={} [stack {}]",
                jj[4],
                k,
                delta,
                robot.signs[4],
                robot.offsets[4],
                ang,
                THR,
                got,
                e,
                stack_name(layers)
            );
            if ang < 10.0 * THR {
                ctx.nontrivial();
            }
        }
    }
    Ok(())
}

/// Smallest singular value of the Jacobian of the wrist centre w.r.t. the first three joints (model side).
fn arm_conditioning(r: &RobotSpec, j: &[f64; 6]) -> f64 {
    let links = r.links(j);
    let wc = links[4].p;
    // joint axes / origins: J1 about z of frame 0 through origin; J2 about y of frame 1 (at o2); J3 about y of frame 2 (at o3)
    let a1 = [0.0, 0.0, 1.0];
    let o1 = [0.0, 0.0, 0.0];
    let a2 = col(&links[0].r, 1);
    let o2 = links[1].p;
    let a3 = col(&links[1].r, 1);
    let o3 = links[2].p;
    let c1 = cross(&a1, &sub(&wc, &o1));
    let c2 = cross(&a2, &sub(&wc, &o2));
    let c3 = cross(&a3, &sub(&wc, &o3));
    let m = nalgebra::Matrix3::new(c1[0], c2[0], c3[0], c1[1], c2[1], c3[1], c1[2], c2[2], c3[2]);
    let sv = m.svd(false, false).singular_values;
    sv.iter().cloned().fold(f64::INFINITY, f64::min)
}

/// Sensitivity of the arm to a 0.125 um shift of the wrist centre along each world axis: the tilt (rad) of the
/// forearm axis (J4 axis) that the shift causes. The library recovers a singular answer from the answer of a
/// micro-shifted pose, which then carries this tilt as J5. Returns (max, min) over the three axes.
fn shift_sensitivity(r: &RobotSpec, j: &[f64; 6]) -> (f64, f64) {
    let links = r.links(j);
    let wc = links[4].p;
    let a = [[0.0, 0.0, 1.0], col(&links[0].r, 1), col(&links[1].r, 1)];
    let o = [[0.0, 0.0, 0.0], links[1].p, links[2].p];
    let c: Vec<V3> = (0..3).map(|k| cross(&a[k], &sub(&wc, &o[k]))).collect();
    let m = nalgebra::Matrix3::new(c[0][0], c[1][0], c[2][0], c[0][1], c[1][1], c[2][1], c[0][2], c[1][2], c[2][2]);
    let inv = match m.try_inverse() {
        Some(i) => i,
        None => return (f64::INFINITY, f64::INFINITY),
    };
    let z4 = col(&links[2].r, 2);
    let mut hi = 0.0f64;
    let mut lo = f64::INFINITY;
    for axis in 0..3 {
        let mut e = nalgebra::Vector3::zeros();
        e[axis] = 0.125e-6;
        let dq = inv * e;
        let mut w = [0.0; 3];
        for k in 0..3 {
            w = add(&w, &scale(&a[k], dq[k]));
        }
        let along = dot(&w, &z4);
        let perp = sub(&w, &scale(&z4, along));
        hi = hi.max(norm(&perp));
        lo = lo.min(norm(&perp));
    }
    (hi, lo)
}

impl Property for C05 {
    type Case = Case;
    fn id(&self) -> &'static str {
        "C05"
    }
    fn rule(&self) -> String {
        "detection: enumerated grid robots x k in -3..3 x delta in +-{0,1e-12,1e-7,0.5thr,0.99thr,1.01thr,2thr,10thr,100thr} plus random robots (arbitrary J5 offset/sign, Tool/Base/Frame wrappers) and random delta; \
         oracle = angle between the J4 and J6 axes of the model link frames, 1e-6 relative sliver around the threshold excluded. Continuity: q5 = 0 exactly, other joints random, admitted when the smallest singular value of the \
         wrist-centre Jacobian w.r.t. (q1,q2,q3) > 0.05 m/rad, the forearm tilt caused by a 0.125 um shift is <= 0.4 urad along every world axis (oracle-computed sensitivity bound) and no other arm branch of the pose is within 10 thr of a wrist singularity (model-decided on the answers of plain inverse; excluded cases counted). \
         Non-trivial: detection cases with axes angle < 10 thr; admitted continuity cases."
            .into()
    }
    fn assumptions(&self) -> Vec<String> {
        vec![
            "oracle M validated against the recorded C++ cases".into(),
            "continuity: previous = q => first answer equals q (1e-5 per joint); previous with J4/J6 perturbed by d4,d6 in +-1 rad => the best answer on the previous arm branch reproduces the pose and | |dJ4| - |dJ6| | <= 1e-5".into(),
        ]
    }
    fn plan(&self, tier: Tier) -> Plan {
        Plan { workers: tier.pick(4, 16), cases_per_worker: tier.pick(125_000, 1_000_000), max_shrink_iters: 3000 }
    }
    fn selftest(&self) -> Result<serde_json::Value, String> {
        crate::selftest::model_vs_recorded()
    }
    fn enumerate(&self, _tier: Tier, ctx: &mut Ctx) -> Result<(), (Case, Violation)> {
        // robots: catalogue, each also with J5 sign flipped and with J5 offsets 0.5 / -pi/2
        let mut robots = Vec::new();
        for (_, r) in catalogue() {
            for (sg, off) in [(1i8, 0.0), (-1, 0.0), (1, 0.5), (-1, -PI / 2.0), (1, PI)] {
                let mut x = r;
                x.signs[4] = sg;
                x.offsets[4] = off;
                robots.push(x);
            }
        }
        let j = [0.3, -0.4, 0.5, 0.6, 0.0, -0.7];
        for robot in &robots {
            for k in -3i8..=3 {
                for di in 0..DELTAS.len() {
                    for neg in [false, true] {
                        let delta = delta_value(di, neg);
                        ctx.evaluations += 1;
                        let before = ctx.classes.get("detect:expected-singular").cloned().unwrap_or(0) + ctx.classes.get("detect:expected-regular").cloned().unwrap_or(0);
                        if let Err(v) = detect(robot, &j, k, delta, &[], ctx) {
                            return Err((Case::Detect { robot: *robot, j, k, delta, layers: vec![] }, v));
                        }
                        let after = ctx.classes.get("detect:expected-singular").cloned().unwrap_or(0) + ctx.classes.get("detect:expected-regular").cloned().unwrap_or(0);
                        if after > before && di <= 7 {
                            ctx.distinct_extra += 1;
                        }
                    }
                }
            }
        }
        ctx.notes.insert("detection_grid".into(), serde_json::json!({"robots": robots.len(), "k": 7, "deltas": DELTAS.len() * 2}));
        Ok(())
    }
    fn strategy(&self, _tier: Tier) -> BoxedStrategy<Case> {
        let delta = prop_oneof![
            3 => (0usize..DELTAS.len(), any::<bool>()).prop_map(|(i, n)| delta_value(i, n)),
            2 => -3.0 * THR..3.0 * THR,
            1 => -1e-2..1e-2f64,
            1 => -PI / 2.0..PI / 2.0,
        ];
        let detect = (
            robot_any(DofChoice::Six),
            joints_mixed(),
            -3i8..=3,
            delta,
            prop_oneof![3 => Just(vec![]), 2 => prop::collection::vec(tbf_layer(1.0), 1..3)],
        )
            .prop_map(|(robot, j, k, delta, layers)| Case::Detect { robot, j, k, delta, layers });
        // J4 / J6 may be wound up beyond a full turn (the recovery must wrap the J4+-J6 sum by as many turns as needed)
        let cont_joints = (joints_uniform(), prop_oneof![3 => Just((0.0, 0.0)), 2 => (-TWO_PI..TWO_PI, -TWO_PI..TWO_PI), 1 => (-3.0 * PI..3.0 * PI, -3.0 * PI..3.0 * PI)]).prop_map(|(mut j, (w4, w6))| {
            j[3] += w4;
            j[5] += w6;
            j
        });
        let cont = (
            robot_sane(DofChoice::Six),
            cont_joints,
            prop_oneof![2 => Just((0.0, 0.0)), 1 => (Just(0.0), -1.0..1.0f64), 1 => (-1.0..1.0f64, Just(0.0)), 3 => (-1.0..1.0f64, -1.0..1.0f64)],
            prop_oneof![2 => Just(None), 1 => (0.0..1.0f64, 0u8..4).prop_map(Some)],
            // (the continuity clauses of the statement are about wrist-singular poses with J5 = 0; a wrist folded back by pi is not generated)
            Just(0i8),
        )
            .prop_map(|(robot, j, (d4, d6), lim, k)| Case::Continuity { robot, j, d4, d6, lim, k });
        prop_oneof![3 => detect, 2 => cont].boxed()
    }
    fn check(&self, c: &Case, ctx: &mut Ctx) -> Res {
        match c {
            Case::Detect { robot, j, k, delta, layers } => detect(robot, j, *k, *delta, layers, ctx),
            Case::Continuity { robot: r, j, d4, d6, lim, k } => {
                let q = wrist_joints(r, j, *k, 0.0); // model q5 = k*pi exactly
                if *k != 0 {
                    ctx.class("continuity:wrist folded back (q5 = +-pi)");
                }
                // conditioning of the arm posture
                let sigma = arm_conditioning(r, &q);
                if !(sigma > 0.05) {
                    ctx.exclude("continuity: arm posture ill-conditioned (sigma_min <= 0.05 m/rad)");
                    return Ok(());
                }
                let (sens_max, _sens_min) = shift_sensitivity(r, &q);
                if !(sens_max <= 0.4e-6) {
                    ctx.exclude("continuity: forearm tilt caused by a 0.125 um shift exceeds 0.4 urad along some axis (sensitivity bound)");
                    return Ok(());
                }
                if !(sens_max >= 1e-9) {
                    ctx.exclude("continuity: degenerate (no axis tilts the forearm)");
                    return Ok(());
                }
                let m = r.margins(&q);
                if m.elbow <= 0.05 || m.shoulder2 <= 0.05 * 0.05 {
                    ctx.exclude("continuity: elbow/shoulder margin");
                    return Ok(());
                }
                let k0 = opw(r);
                let pose = r.fk(&q);
                let na = to_na(&pose);
                // no other arm branch simultaneously (near) wrist-singular
                let plain = no_panic(|| k0.inverse(&na)).map_err(|m| viol!("no panic", "inverse: {}", m))?;
                let same_arm = |s: &[f64; 6]| (0..3).all(|t| circ_dist(s[t], q[t]) < 1e-4);
                for s in &plain {
                    if !same_arm(s) {
                        let qm = r.model_angles(s);
                        if qm[4].sin().abs() < (10.0 * THR).sin() {
                            ctx.exclude("continuity: a second IK branch is simultaneously wrist-singular");
                            return Ok(());
                        }
                    }
                }
                let mut prev = q;
                prev[3] += d4;
                prev[5] += d6;
                // optional limits that admit the previous joints, the posture and everything in between on J4 / J6
                let k = match lim {
                    None => k0,
                    Some((u, form)) => {
                        let wmin = d4.abs() + d6.abs() + 0.2;
                        let w = wmin + u * (2.9 - wmin);
                        let mut from = [-3.3; 6];
                        let mut to = [3.3; 6];
                        for t in [3usize, 5] {
                            let (lo, hi) = (prev[t] - w, prev[t] + w);
                            let (f, tt) = match form % 4 {
                                0 => (lo, hi),
                                1 => (lo + TWO_PI, hi), // the same arc in the documented wrap-around form (from > to)
                                2 => (lo + TWO_PI, hi + TWO_PI),
                                _ => (lo - TWO_PI, hi - TWO_PI),
                            };
                            from[t] = f;
                            to[t] = tt;
                        }
                        ctx.class(["continuity:limits from<to", "continuity:limits in wrap-around form", "continuity:limits a turn up", "continuity:limits a turn down"][(form % 4) as usize]);
                        opw_c(r, rs_opw_kinematics::constraints::Constraints::new(from, to, 0.0))
                    }
                };
                let sols = no_panic(|| k.inverse_continuing(&na, &prev)).map_err(|m| viol!("no panic", "inverse_continuing: {}", m))?;
                ensure!(!sols.is_empty(), "a wrist-singular pose realised by the previous joints has a continuation answer", "no answers for q={:?}", q);
                for s in &sols {
                    check_solution(r, &pose, s, true, "inverse_continuing at a wrist-singular pose")?;
                }
                if *d4 == 0.0 && *d6 == 0.0 {
                    ctx.class("continuity:previous==q");
                    let d = (0..6).map(|t| (sols[0][t] - q[t]).abs()).fold(0.0, f64::max);
                    ensure!(
                        d <= 1e-5,
                        "when the previous joints realise the wrist-singular pose, the first continuation answer equals the previous joints",
                        "first answer {:?} previous {:?} (max |d| = {:e}); signs {:?} offsets {:?}",
                        sols[0],
                        q,
                        d,
                        r.signs,
                        r.offsets
                    );
                } else {
                    ctx.class("continuity:J4/J6-perturbed");
                    // The recovered answer: an answer on the arm branch of the previous joints whose J4 and J6 moved by
                    // the same amount. (Raw closed-form answers on that branch split the J4+J6 sum arbitrarily and can tie
                    // with it in cost, so "the first one" is not required to be it.)
                    let on_branch: Vec<&[f64; 6]> = sols.iter().filter(|s| same_arm(s) && circ_dist(s[4], q[4]) < 1e-3).collect();
                    ensure!(!on_branch.is_empty(), "the recovered answer exists on the previous arm branch", "answers {:?} previous {:?}", sols, prev);
                    let best = on_branch.iter().map(|s| ((s[3] - prev[3]).abs() - (s[5] - prev[5]).abs()).abs()).fold(f64::INFINITY, f64::min);
                    ensure!(
                        best <= 1e-5,
                        "J4 and J6 of the recovered answer move by the same amount from their previous values",
                        "no answer on the previous arm branch moved J4 and J6 equally (best | |dJ4|-|dJ6| | = {:e}); answers on branch {:?} previous {:?}; signs {:?} offsets {:?}",
                        best,
                        on_branch,
                        prev,
                        r.signs,
                        r.offsets
                    );
                }
                if r.signs[3] != r.signs[5] {
                    ctx.class("continuity:mixed J4/J6 signs");
                }
                if q[3].abs() > PI || q[5].abs() > PI {
                    ctx.class("continuity:J4/J6 wound beyond half a turn");
                }
                if r.offsets[4] != 0.0 {
                    ctx.class("continuity:J5-offset");
                }
                ctx.nontrivial();
                Ok(())
            }
        }
    }
}
