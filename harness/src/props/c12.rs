//! C12 — a planned Cartesian stroke is collision-free, in limits, continuous and linear.

use crate::arc::*;
use crate::engine::*;
use crate::gen::*;
use crate::glue::*;
use crate::model::*;
use crate::props::c10::in_pool;
use crate::props::c13::{limit_box, planning_scene};
use crate::scene::*;
use crate::{ensure, viol};
use proptest::prelude::*;
use rs_opw_kinematics::cartesian::{AnnotatedJoints, Cartesian, PathFlags, DEFAULT_TRANSITION_COSTS};
use rs_opw_kinematics::rrt::RRTPlanner;
use serde::{Deserialize, Serialize};

pub struct C12;

#[derive(Clone, Debug, Serialize, Deserialize)]
pub struct Case {
    pub scene: Scene,
    pub limits: LimitSpec,
    /// start as fractions of the limit box
    pub start_u: [f64; 6],
    /// joint-space polyline: landing = start + d[0], stroke k = previous + d[k], parking = last + d[last]; 2..=6 entries
    pub deltas: Vec<[f64; 6]>,
    pub check_step_m: f64,
    pub check_step_deg: f64,
    pub max_cost_deg: f64,
    pub depth: u8,
    pub include: bool,
    /// 0 free, 1 box near the path (3 x safety distance from the tool at a stroke posture), 2 box on the tool at an interpolated posture
    pub obstacle: u8,
    pub obstacle_at: f64,
    pub rrt_step_deg: f64,
    pub rrt_max_try: u32,
    pub coeffs: Option<[f64; 6]>,
    /// schedule exploration owned by the harness: in the second run under 2, 4 and 16 threads the IK calls of the strategies whose previous
    /// joints fall into the classes selected by these masks (bit = sign pattern of J1, J3, J5) are slowed down, so that another strategy finishes first
    #[serde(default)]
    pub slow: (u8, u8),
    /// poses whose rotation is handed over in its other quaternion representative (-q, the same rotation): bit i = pose i (landing, strokes..., parking)
    #[serde(default)]
    pub neg_q: u8,
}

/// Kinematics wrapper that delays `inverse_continuing` for previous joints of selected branch classes (see Case::slow).
pub struct Slowing {
    pub inner: std::sync::Arc<dyn rs_opw_kinematics::kinematic_traits::Kinematics>,
    pub mask: std::sync::atomic::AtomicU8,
}

impl rs_opw_kinematics::kinematic_traits::Kinematics for Slowing {
    fn inverse(&self, pose: &rs_opw_kinematics::kinematic_traits::Pose) -> rs_opw_kinematics::kinematic_traits::Solutions {
        self.inner.inverse(pose)
    }
    fn inverse_continuing(&self, pose: &rs_opw_kinematics::kinematic_traits::Pose, previous: &rs_opw_kinematics::kinematic_traits::Joints) -> rs_opw_kinematics::kinematic_traits::Solutions {
        let m = self.mask.load(std::sync::atomic::Ordering::Relaxed);
        if m != 0 {
            let class = (previous[0] >= 0.0) as u8 | (((previous[2] >= 0.0) as u8) << 1) | (((previous[4] >= 0.0) as u8) << 2);
            if m & (1 << class) != 0 {
                std::thread::sleep(std::time::Duration::from_micros(150));
            }
        }
        self.inner.inverse_continuing(pose, previous)
    }
    fn forward(&self, qs: &rs_opw_kinematics::kinematic_traits::Joints) -> rs_opw_kinematics::kinematic_traits::Pose {
        self.inner.forward(qs)
    }
    fn inverse_5dof(&self, pose: &rs_opw_kinematics::kinematic_traits::Pose, j6: f64) -> rs_opw_kinematics::kinematic_traits::Solutions {
        self.inner.inverse_5dof(pose, j6)
    }
    fn inverse_continuing_5dof(&self, pose: &rs_opw_kinematics::kinematic_traits::Pose, prev: &rs_opw_kinematics::kinematic_traits::Joints) -> rs_opw_kinematics::kinematic_traits::Solutions {
        self.inner.inverse_continuing_5dof(pose, prev)
    }
    fn constraints(&self) -> &Option<rs_opw_kinematics::constraints::Constraints> {
        self.inner.constraints()
    }
    fn kinematic_singularity(&self, qs: &rs_opw_kinematics::kinematic_traits::Joints) -> Option<rs_opw_kinematics::kinematic_traits::Singularity> {
        self.inner.kinematic_singularity(qs)
    }
    fn forward_with_joint_poses(&self, joints: &rs_opw_kinematics::kinematic_traits::Joints) -> [rs_opw_kinematics::kinematic_traits::Pose; 6] {
        self.inner.forward_with_joint_poses(joints)
    }
}

fn flags_of(a: &AnnotatedJoints) -> PathFlags {
    a.flags
}

fn slerp(ra: &M3, rb: &M3, t: f64) -> M3 {
    let rel = mmul(&mtr(ra), rb);
    let th = rot_angle(&ident(), &rel);
    if th < 1e-12 {
        return *ra;
    }
    let v = [rel[2][1] - rel[1][2], rel[0][2] - rel[2][0], rel[1][0] - rel[0][1]];
    mmul(ra, &axis_angle(&v, t * th))
}

pub struct PlanSetup {
    pub built: Built,
    pub start: [f64; 6],
    pub joints: Vec<[f64; 6]>, // landing, strokes..., parking (generating joint vectors)
    pub poses: Vec<Iso>,       // landing, strokes..., parking
}

/// Deterministic bounded search for a collision-free start: the k-th candidate shifts the start fractions
/// by k times the golden ratio (mod 1). Returns None when none of 12 candidates is free.
pub fn setup_free(c: &Case) -> Option<(PlanSetup, usize)> {
    for k in 0..12 {
        let s = setup(c, k);
        let free = !s.built.robot.collides(&s.start) && !s.built.robot.collides(&s.joints[0]);
        if free {
            return Some((s, k));
        }
    }
    None
}

fn setup(c: &Case, attempt: usize) -> PlanSetup {
    let l = &c.limits;
    let start: [f64; 6] = std::array::from_fn(|k| {
        let u = (c.start_u[k] + attempt as f64 * 0.6180339887498949 * (1.0 + k as f64 * 0.37)).fract();
        let u = 0.15 + 0.7 * u;
        let u = if attempt == 0 { c.start_u[k] } else { u };
        l.from[k] + u * (l.to[k] - l.from[k])
    });
    let mut joints = Vec::new();
    let mut cur = start;
    for d in &c.deltas {
        for k in 0..6 {
            // stay inside the limit box (reflect at the walls)
            let mut x = cur[k] + d[k];
            if x > l.to[k] - 0.02 || x < l.from[k] + 0.02 {
                x = cur[k] - d[k];
            }
            cur[k] = x.max(l.from[k] + 0.01).min(l.to[k] - 0.01);
        }
        joints.push(cur);
    }
    let mut scene = c.scene.clone();
    scene.limits = Some(c.limits);
    // obstacle placement posture: between two consecutive generating vectors
    let n = joints.len();
    let seg = ((c.obstacle_at.abs() * (n as f64 - 1.0)).floor() as usize).min(n.saturating_sub(2));
    // a negative value places the obstacle posture exactly at a generating vector (a landing / stroke / parking pose itself)
    let f = if c.obstacle_at < 0.0 { 0.0 } else { (c.obstacle_at.abs() * (n as f64 - 1.0)).fract() };
    let j_ref: [f64; 6] = std::array::from_fn(|k| joints[seg][k] + f * (joints[(seg + 1).min(n - 1)][k] - joints[seg][k]));
    match c.obstacle % 3 {
        0 => scene.env.clear(),
        1 => {
            scene.env.truncate(1);
            for e in scene.env.iter_mut() {
                e.attach = 6;
                e.gap_factor = 3.0;
            }
        }
        _ => {
            scene.env.truncate(1);
            for e in scene.env.iter_mut() {
                e.attach = 6;
                e.gap_factor = -0.5;
            }
        }
    }
    let built = scene.build(&j_ref);
    let b = scene.base_iso();
    let poses = joints.iter().map(|j| b.mul(&scene.robot.fk(j))).collect();
    PlanSetup { built, start, joints, poses }
}

/// Reference evaluation of one strategy (landing solution), re-implemented from the documented procedure:
/// densify the pose sequence by check_step_m / check_step_rad, walk it with the library's own IK
/// (first answer whose transition cost is within the limit, otherwise bisect down to the recursion depth).
/// Returns the Cartesian trace (joints from LAND to PARK) or None when some transition would need RRT gap closing.
pub fn reference_trace(robot: &rs_opw_kinematics::kinematics_with_shape::KinematicsWithShape, strategy: &[f64; 6], originals: &[nalgebra::Isometry3<f64>], check_step_m: f64, check_step_rad: f64, max_cost: f64, coeffs: &[f64; 6], depth: usize) -> Option<Vec<[f64; 6]>> {
    type P = nalgebra::Isometry3<f64>;
    let mut poses: Vec<P> = vec![originals[0]];
    for w in originals.windows(2) {
        let (a, b) = (&w[0], &w[1]);
        let diff = b.translation.vector - a.translation.vector;
        let ang = (b.rotation * a.rotation.inverse()).angle();
        let steps = ((diff.norm() / check_step_m).ceil() as usize).max((ang / check_step_rad).ceil() as usize).max(1);
        let step = diff / steps as f64;
        for i in 1..steps {
            let fr = i as f64 / steps as f64;
            poses.push(P::from_parts((a.translation.vector + step * i as f64).into(), a.rotation.slerp(&b.rotation, fr)));
        }
        poses.push(*b);
    }
    fn cost(a: &[f64; 6], b: &[f64; 6], c: &[f64; 6]) -> f64 {
        (0..6).map(|k| (a[k] - b[k]).abs() * c[k]).sum()
    }
    fn walk(robot: &rs_opw_kinematics::kinematics_with_shape::KinematicsWithShape, starting: &[f64; 6], from: &nalgebra::Isometry3<f64>, to: &nalgebra::Isometry3<f64>, d: usize, max_d: usize, max_cost: f64, coeffs: &[f64; 6]) -> Option<Vec<[f64; 6]>> {
        use rs_opw_kinematics::kinematic_traits::Kinematics;
        let sols = robot.kinematics.inverse_continuing(to, starting);
        for n in &sols {
            if cost(starting, n, coeffs) <= max_cost {
                return Some(vec![*n]);
            }
        }
        if d < max_d {
            let mid = nalgebra::Isometry3::from_parts(from.translation.vector.lerp(&to.translation.vector, 0.5).into(), from.rotation.slerp(&to.rotation, 0.5));
            let first = walk(robot, starting, from, &mid, d + 1, max_d, max_cost, coeffs)?;
            let mid_j = *first.last().unwrap();
            let second = walk(robot, &mid_j, &mid, to, d + 1, max_d, max_cost, coeffs)?;
            Some(first.into_iter().chain(second.into_iter()).collect())
        } else {
            None
        }
    }
    let mut trace = vec![*strategy];
    for w in poses.windows(2) {
        let prev = *trace.last().unwrap();
        let ext = walk(robot, &prev, &w[0], &w[1], 0, depth, max_cost, coeffs)?;
        trace.extend(ext);
    }
    Some(trace)
}

#[derive(Clone, Debug, PartialEq)]
enum Outcome {
    Err(String),
    OkPlain,
    OkGapClosed,
}

impl Property for C12 {
    type Case = Case;
    fn id(&self) -> &'static str {
        "C12"
    }
    fn rule(&self) -> String {
        "model-based histories: slim box-bodied robots with limits (non-wrapping windows; two sets in nine shifted so that windows reach beyond +-pi, one in nine with wrist windows J4/J6 from a little below zero to beyond +pi and the start in their lower part); start inside the limit box; landing / 0..4 stroke poses / parking = model FK of a generated joint-space polyline (per-joint steps small (<= 0.15 rad) => feasible, or up to 1 rad => may fail; one segment in 14 turns the tool in place (J6 only), one repeats the pose); \
         check steps 0.01..0.2 m / 1..20 degrees, cost limit 2..30 degrees, recursion depth 0..8, include_linear_interpolation in {true,false}, transition coefficients default or random; obstacle layouts free / box at 3 x safety distance from the tool at a path posture / box on the tool \
         at an interpolated posture or (one in four) exactly at a stroke pose; poses handed over as q or -q (one case in three; one in six with a cost limit below one check step and 7..9 bisection levels); RRT step 2..8 degrees and budget 50..2000; every plan is run under rayon pools of 1, 2, 4 and 16 threads, twice each; in the second run under 2, 4 and 16 threads the harness slows down the IK calls of some strategies (selected by the sign pattern of J1/J3/J5 of their joints), so that the order in which strategies finish changes. Oracle: validity predicate over every waypoint of every returned plan. \
         Non-trivial: a successful plan with >= 1 interpolated waypoint (or, with include=false, a successful plan)."
            .into()
    }
    fn assumptions(&self) -> Vec<String> {
        vec![
            "Err is always acceptable (planning may fail); every Ok path must satisfy all clauses".into(),
            "when the flag counts show an RRT gap closing (more TRACE/PARK nodes than poses, or nodes after LAND that carry none of the Cartesian role flags LAND/TRACE/PARK/LIN_INTERP - no flags at all, or only e.g. ALTERED) only collision/limits, start, order of the original poses and the final parking pose are asserted".into(),
            "scheduling independence is asserted in the form: if some run returns a plan without RRT gap closing, and the onboarding move to that plan's landing solution is guaranteed (the straight joint-space segment from the start is free with 5 cm extra clearance), every run under every pool size returns a plan. The harness's own re-implementation of the documented walk is reported (classes plan:equals / differs ...) but not asserted: how finely a stroke is sampled and which admissible IK answer is followed are not part of the statement".into(),
        ]
    }
    fn plan(&self, tier: Tier) -> Plan {
        Plan { workers: tier.pick(8, 16), cases_per_worker: tier.pick(200, 600), max_shrink_iters: 60 }
    }
    fn strategy(&self, _tier: Tier) -> BoxedStrategy<Case> {
        let delta = prop_oneof![
            8 => prop::array::uniform6(-0.15..0.15f64),
            2 => prop::array::uniform6(-0.5..0.5f64),
            2 => prop::array::uniform6(-1.0..1.0f64),
            // the tool turns in place: only the last joint moves (same tool point, another orientation)
            1 => (0.05..0.5f64, any::<bool>()).prop_map(|(d, n)| [0.0, 0.0, 0.0, 0.0, 0.0, if n { -d } else { d }]),
            // the same pose twice
            1 => Just([0.0; 6]),
        ];
        (
            planning_scene(1),
            // one window set in four is shifted: windows that are not centred near zero and may reach beyond +-pi
            prop_oneof![
                6 => limit_box().prop_map(|l| (l, false)),
                2 => crate::props::c13::limit_box_shifted().prop_map(|l| (l, false)),
                // wrist windows that are not symmetric about zero: J4 and J6 may turn from a little below zero up to beyond +pi, less than a full turn wide
                // (the wrist-flipped landing solutions, half a turn from the start, are then reported a whole turn below the window by the IK)
                1 => (limit_box(), -1.5..0.5f64, -1.5..0.5f64, 3.75..5.85f64, 3.75..5.85f64).prop_map(|(mut l, f4, f6, w4, w6)| {
                    l.from[3] = f4;
                    l.to[3] = f4 + w4;
                    l.from[5] = f6;
                    l.to[5] = f6 + w6;
                    (l, true)
                }),
            ],
            prop::array::uniform6(0.2..0.8f64),
            prop::collection::vec(delta, 2..=6),
            (0.01..0.2f64, 1.0..20.0f64, 2.0..30.0f64, 0u8..9, any::<bool>()),
            (0u8..3, prop_oneof![3 => 0.0..1.0f64, 1 => -1.0..-0.01f64], 2.0..8.0f64, prop_oneof![Just(50u32), Just(500u32), Just(2000u32)]),
            prop_oneof![2 => Just(None), 1 => prop::array::uniform6(0.5..1.5f64).prop_map(Some)],
            // one case in six: a stroke that needs deep bisection (cost limit below the cost of one check step, 7..9 levels), poses handed over as q / -q
            prop_oneof![4 => Just((0u8, None)), 1 => any::<u8>().prop_map(|m| (m, None)), 1 => (1u8..=254, 0.45..1.0f64, 7u8..=9, 3.0..10.0f64).prop_map(|(m, f, d, st)| (m, Some((f, d, st))))],
        )
            .prop_map(|(scene, (mut limits, wrist), mut start_u, deltas, (check_step_m, mut check_step_deg, mut max_cost_deg, mut depth, mut include), (obstacle, obstacle_at, rrt_step_deg, rrt_max_try), coeffs, (neg_q, deep))| {
                if let Some((f, d, st)) = deep {
                    check_step_deg = st;
                    max_cost_deg = (st * f).max(2.5);
                    depth = d;
                    include = true;
                    // wrist axes that may turn more than a whole turn (+-225 degrees, as on many arms)
                    for k in [3usize, 5] {
                        limits.from[k] = -3.93;
                        limits.to[k] = 3.93;
                        start_u[k] = 0.35 + 0.3 * start_u[k];
                    }
                }
                if wrist {
                    // start in the lower part of the wrist windows
                    start_u[3] *= 0.3;
                    start_u[5] *= 0.3;
                }
                Case {
                scene,
                limits,
                start_u,
                deltas,
                check_step_m,
                check_step_deg,
                max_cost_deg,
                depth,
                include,
                obstacle,
                obstacle_at,
                rrt_step_deg,
                rrt_max_try,
                coeffs,
                slow: ((start_u[0] * 251.0) as u8 | 1, (start_u[1] * 251.0) as u8 | 2),
                neg_q,
                }
            })
            .boxed()
    }
    fn check(&self, c: &Case, ctx: &mut Ctx) -> Res {
        // every joint-space planning call becomes a pure function of (seed, start, goal), whatever rayon thread runs it
        rs_opw_kinematics::verif_hooks::set_global_seed(Some(0xC12));
        if c.scene.safety.ambiguous() || c.deltas.len() < 2 {
            ctx.exclude("ambiguous safety table");
            return Ok(());
        }
        let mut c = c.clone();
        if c.scene.env.is_empty() && c.obstacle % 3 != 0 {
            // the layout needs a box
            c.scene.env.push(EnvSpec { attach: 6, gap_factor: 3.0, half: [0.08, 0.08, 0.08], side: 0, spin: 0.0, fan: 0, free_pose: IsoSpec::identity() });
        }
        let c = &c;
        let (mut s, attempts) = match setup_free(c) {
            Some(x) => x,
            None => {
                ctx.exclude("no collision-free start/landing posture among 12 candidates");
                return Ok(());
            }
        };
        ctx.class_n("start-candidates-tried", attempts as u64 + 1);
        let slowing = std::sync::Arc::new(Slowing { inner: s.built.robot.kinematics.clone(), mask: std::sync::atomic::AtomicU8::new(0) });
        s.built.robot.kinematics = slowing.clone();
        let robot = &s.built.robot;
        let scene_robot = &c.scene.robot;
        let base = c.scene.base_iso();
        let n = s.poses.len();
        // poses come from different sources: some hand their rotation over as -q (negative scalar part), the same rotation
        let handed = |i: usize| {
            let mut p = to_na(&s.poses[i]);
            if c.neg_q >> (i % 8) & 1 == 1 {
                p.rotation = nalgebra::UnitQuaternion::new_unchecked(-p.rotation.into_inner());
            }
            p
        };
        if (0..n).any(|i| c.neg_q >> (i % 8) & 1 == 1) && (0..n).any(|i| c.neg_q >> (i % 8) & 1 == 0) {
            ctx.class("poses handed over in mixed quaternion representatives (q / -q)");
        }
        let land = handed(0);
        let park = handed(n - 1);
        let strokes: Vec<_> = (1..n - 1).map(handed).collect();
        let coeffs = c.coeffs.unwrap_or(DEFAULT_TRANSITION_COSTS);
        let max_cost = c.max_cost_deg.to_radians();
        let rrt_step = c.rrt_step_deg.to_radians();
        let planner = Cartesian {
            robot,
            check_step_m: c.check_step_m,
            check_step_rad: c.check_step_deg.to_radians(),
            max_transition_cost: max_cost,
            transition_coefficients: coeffs,
            linear_recursion_depth: c.depth as usize,
            rrt: RRTPlanner { step_size_joint_space: rrt_step, max_try: c.rrt_max_try as usize, debug: false },
            include_linear_interpolation: c.include,
            debug: false,
        };
        ctx.class(["obstacle:free", "obstacle:near-path", "obstacle:blocking"][(c.obstacle % 3) as usize]);
        ctx.class(if c.include { "include:true" } else { "include:false" });

        let fk = |j: &[f64; 6]| base.mul(&scene_robot.fk(j));
        let tol_p = 2e-6 + 1e-9 * (1.0 + scene_robot.reach() + norm(&base.p));
        let lim = &c.limits;

        let mut outcomes: Vec<(usize, Outcome)> = Vec::new();
        let mut plain_lands: Vec<[f64; 6]> = Vec::new();
        for (threads, repeats) in [(1usize, 2usize), (2, 2), (4, 2), (16, 2)] {
            for rep in 0..repeats {
                // second run under 2 / 4 / 16 threads: some strategies are slowed down (the finishing order of the strategies changes)
                let mask = match (rep, threads) {
                    (1, 2) => c.slow.0,
                    (1, 4) => c.slow.1,
                    (1, 16) => !c.slow.0,
                    _ => 0,
                };
                slowing.mask.store(mask, std::sync::atomic::Ordering::Relaxed);
                let res = in_pool(threads, || no_panic(|| planner.plan(&s.start, &land, strokes.clone(), &park))).map_err(|m| viol!("planning never panics", "Cartesian::plan [{} threads]: {}", threads, m))?;
                let path = match res {
                    Err(e) => {
                        outcomes.push((threads, Outcome::Err(e)));
                        continue;
                    }
                    Ok(p) => p,
                };
                ensure!(!path.is_empty(), "a successful plan is not empty", "empty path");
                // (1) every waypoint collision free and within limits
                for (i, w) in path.iter().enumerate() {
                    ensure!(w.joints.iter().all(|x| x.is_finite()), "waypoints are finite", "waypoint {}: {:?}", i, w.joints);
                    let col = no_panic(|| robot.collides(&w.joints)).map_err(|m| viol!("no panic", "collides: {}", m))?;
                    ensure!(
                        !col,
                        "every waypoint of a successful plan is free of collisions at the configured safety distances",
                        "[{} threads] waypoint {} of {} collides: {:?} pairs {:?}",
                        threads,
                        i,
                        path.len(),
                        w,
                        robot.collision_details(&w.joints).iter().map(crate::props::c10::pair_name).collect::<Vec<_>>()
                    );
                    if arc_member6(&lim.from, &lim.to, &w.joints, 1e-9) == Verdict::Out {
                        let v = viol!("every waypoint is within joint limits", "waypoint {} of {}: {:?} limits {:?}..{:?}; start {:?}", i, path.len(), w, lim.from, lim.to, s.start);
                        // (defect 19, repaired by 44cce5f: joint-space moves towards IK answers a whole turn outside the numeric window crossed the forbidden arc)
                        return Err(v);
                    }
                }
                // (2) the path leads from the given start configuration ...
                ensure!((0..6).all(|k| path[0].joints[k].to_bits() == s.start[k].to_bits()), "the path leads from the given start configuration", "first waypoint {:?}, start {:?}", path[0], s.start);
                let land_idx: Vec<usize> = path.iter().enumerate().filter(|(_, w)| flags_of(w).contains(PathFlags::LAND)).map(|(i, _)| i).collect();
                ensure!(land_idx.len() == 1, "exactly one LAND waypoint", "{} LAND waypoints in {:?}", land_idx.len(), path);
                let li = land_idx[0];
                for i in 0..li {
                    ensure!(!flags_of(&path[i]).intersects(PathFlags::TRACE | PathFlags::PARK | PathFlags::LIN_INTERP), "the onboarding prefix precedes the landing pose", "waypoint {} = {:?}", i, path[i]);
                    let d = (0..6).map(|k| (path[i].joints[k] - path[i + 1].joints[k]).powi(2)).sum::<f64>().sqrt();
                    ensure!(d <= 3.0 * rrt_step + 1e-9, "the onboarding move is a joint-space path of small steps", "waypoints {} and {}: distance {} > 3*{}", i, i + 1, d, rrt_step);
                }
                // ... to a solution of the landing pose
                let lp = fk(&path[li].joints);
                ensure!(dist(&lp.p, &s.poses[0].p) <= tol_p && rot_angle(&lp.r, &s.poses[0].r) <= 1e-5, "the LAND waypoint is a solution of the landing pose", "dp={:e} dang={:e}", dist(&lp.p, &s.poses[0].p), rot_angle(&lp.r, &s.poses[0].r));
                // (3) originals in order with their flags
                let tail = &path[li..];
                let n_trace = tail.iter().filter(|w| flags_of(w).contains(PathFlags::TRACE)).count();
                let n_park = tail.iter().filter(|w| flags_of(w).contains(PathFlags::PARK)).count();
                // relocation nodes: waypoints after LAND that carry none of the Cartesian roles (no flags at all, or only flags such as ALTERED)
                let flagless = tail.iter().filter(|w| !flags_of(w).intersects(PathFlags::LAND | PathFlags::TRACE | PathFlags::PARK | PathFlags::LIN_INTERP)).count();
                let gap_closed = n_trace != n - 2 || n_park != 1 || flagless > 0;
                // final waypoint is PARK and reproduces the parking pose
                let last = &path[path.len() - 1];
                ensure!(flags_of(last).contains(PathFlags::PARK), "the parking pose is the last waypoint", "last waypoint {:?}", last);
                let pp = fk(&last.joints);
                ensure!(dist(&pp.p, &s.poses[n - 1].p) <= tol_p && rot_angle(&pp.r, &s.poses[n - 1].r) <= 1e-5, "the PARK waypoint reproduces the parking pose", "dp={:e} dang={:e}", dist(&pp.p, &s.poses[n - 1].p), rot_angle(&pp.r, &s.poses[n - 1].r));
                // continuity of the whole joint path, whatever produced a waypoint: consecutive waypoints are either a small joint-space
                // (RRT) step, at most three planner steps apart, or a Cartesian transition within the configured cost limit
                if c.include {
                    for i in 0..path.len() - 1 {
                        let (a, b) = (&path[i].joints, &path[i + 1].joints);
                        let d = (0..6).map(|k| (a[k] - b[k]).powi(2)).sum::<f64>().sqrt();
                        let cost: f64 = (0..6).map(|k| (a[k] - b[k]).abs() * coeffs[k]).sum();
                        ensure!(
                            d <= 3.0 * rrt_step + 1e-9 || cost <= max_cost + 1e-9,
                            "the joint path is continuous: consecutive waypoints are a small joint-space step or a Cartesian transition within the configured cost",
                            "[{} threads] jump between waypoint {} ({:?}) and waypoint {} ({:?}): joint distance {:.4} rad (3 RRT steps = {:.4}), transition cost {:.4} (limit {:.4})",
                            threads,
                            i,
                            path[i],
                            i + 1,
                            path[i + 1],
                            d,
                            3.0 * rrt_step,
                            cost,
                            max_cost
                        );
                    }
                }
                if gap_closed {
                    // RRT gap closing happened: intermediate nodes are joint-space moves by design.
                    // The original poses must still be present in order.
                    let mut next = 1;
                    for w in tail.iter() {
                        if next < n - 1 && flags_of(w).contains(PathFlags::TRACE) {
                            let p = fk(&w.joints);
                            if dist(&p.p, &s.poses[next].p) <= tol_p && rot_angle(&p.r, &s.poses[next].r) <= 1e-5 {
                                next += 1;
                            }
                        }
                    }
                    ensure!(next == n - 1, "the stroke poses appear in order (RRT gap closing present)", "only {} of {} stroke poses found in order", next - 1, n - 2);
                    outcomes.push((threads, Outcome::OkGapClosed));
                    ctx.class("plan:ok with RRT gap closing");
                    continue;
                }
                // originals: LAND, TRACE x (n-2), PARK in order, reproduced by forward kinematics
                let orig_idx: Vec<usize> = tail.iter().enumerate().filter(|(_, w)| flags_of(w).intersects(PathFlags::LAND | PathFlags::TRACE | PathFlags::PARK)).map(|(i, _)| i).collect();
                ensure!(orig_idx.len() == n, "landing, stroke and parking poses appear exactly once each", "{} flagged originals for {} poses", orig_idx.len(), n);
                for (k, &i) in orig_idx.iter().enumerate() {
                    let want_flag = if k == 0 {
                        PathFlags::LAND
                    } else if k == n - 1 {
                        PathFlags::PARK
                    } else {
                        PathFlags::TRACE
                    };
                    ensure!(flags_of(&tail[i]).contains(want_flag), "landing, stroke and parking poses appear in order with their flags", "original {} carries {:?}", k, tail[i]);
                    let p = fk(&tail[i].joints);
                    ensure!(
                        dist(&p.p, &s.poses[k].p) <= tol_p && rot_angle(&p.r, &s.poses[k].r) <= 1e-5,
                        "landing, stroke and parking poses are reproduced by forward kinematics",
                        "original {}: dp={:e} dang={:e}",
                        k,
                        dist(&p.p, &s.poses[k].p),
                        rot_angle(&p.r, &s.poses[k].r)
                    );
                }
                // (6) interpolated waypoints only when requested
                let n_interp = tail.iter().filter(|w| flags_of(w).contains(PathFlags::LIN_INTERP)).count();
                if !c.include {
                    ensure!(n_interp == 0, "interpolated waypoints are present only when requested", "{} LIN_INTERP waypoints although include_linear_interpolation = false", n_interp);
                    ensure!(tail.len() == n, "without interpolation the Cartesian part consists of the original poses", "{} waypoints for {} poses", tail.len(), n);
                } else {
                    // (4) every interpolated waypoint lies on the straight segment between the poses it interpolates
                    for k in 0..n - 1 {
                        let (a, b) = (orig_idx[k], orig_idx[k + 1]);
                        let (pa, pb) = (&s.poses[k], &s.poses[k + 1]);
                        let d = sub(&pb.p, &pa.p);
                        let len2 = dot(&d, &d);
                        let total_ang = rot_angle(&pa.r, &pb.r);
                        let mut t_prev = 0.0f64;
                        for i in (a + 1)..b {
                            ensure!(flags_of(&tail[i]).contains(PathFlags::LIN_INTERP), "waypoints between two original poses are flagged as interpolated", "waypoint {:?}", tail[i]);
                            let p = fk(&tail[i].joints);
                            let t = if len2 > 1e-18 {
                                (dot(&sub(&p.p, &pa.p), &d) / len2).max(0.0).min(1.0)
                            } else if total_ang > 1e-9 {
                                (rot_angle(&pa.r, &p.r) / total_ang).min(1.0)
                            } else {
                                0.0
                            };
                            let on = add(&pa.p, &scale(&d, t));
                            ensure!(dist(&p.p, &on) <= tol_p, "every Cartesian waypoint lies on the straight segment between the poses it interpolates", "segment {} waypoint {}: distance from the segment {:e} (t={})", k, i, dist(&p.p, &on), t);
                            let slack = if len2 > 1e-18 { 2.0 * tol_p / len2.sqrt() } else { 1e-4 };
                            ensure!(t + slack >= t_prev, "interpolated waypoints advance monotonically along the segment", "segment {} waypoint {}: t={} after t={}", k, i, t, t_prev);
                            t_prev = t_prev.max(t);
                            let r_want = slerp(&pa.r, &pb.r, t);
                            let da = rot_angle(&p.r, &r_want);
                            let ang_slack = 1e-5 + if len2 > 1e-18 { total_ang * 2.0 * tol_p / len2.sqrt() } else { 1e-4 * total_ang };
                            ensure!(da <= ang_slack, "the orientation of an interpolated waypoint is the interpolated orientation", "segment {} waypoint {}: dang={:e} (t={})", k, i, da, t);
                        }
                    }
                    // (5) consecutive Cartesian waypoints differ by no more than the configured transition cost. A transition that the planner could
                    // not make within the cost is closed by a joint-space relocation (documented: "closing step with RRT"); such a relocation may consist of
                    // a single planner step that arrives at a pose of the stroke and is then indistinguishable by flags from a Cartesian transition: a pair
                    // whose second waypoint is not an interpolated one and that is at most three planner steps long is therefore accepted as a relocation.
                    for i in 0..tail.len() - 1 {
                        let cost: f64 = (0..6).map(|k| (tail[i].joints[k] - tail[i + 1].joints[k]).abs() * coeffs[k]).sum();
                        let d = (0..6).map(|k| (tail[i].joints[k] - tail[i + 1].joints[k]).powi(2)).sum::<f64>().sqrt();
                        let relocation = !flags_of(&tail[i + 1]).contains(PathFlags::LIN_INTERP) && d <= 3.0 * rrt_step + 1e-9;
                        if cost > max_cost + 1e-9 && relocation {
                            ctx.class("plan:one-step relocation onto a stroke pose (cost above the limit, accepted)");
                        }
                        ensure!(cost <= max_cost + 1e-9 || relocation, "consecutive Cartesian waypoints differ by no more than the configured transition cost", "waypoints {} -> {}: cost {} > {}", i, i + 1, cost, max_cost);
                    }
                }
                ctx.class("plan:ok");
                if n_interp >= 1 || !c.include {
                    ctx.nontrivial();
                }
                // more waypoints than densified poses => bisection was used (counted for the evidence only)
                let mut dens = 1usize;
                for k in 0..n - 1 {
                    let tl = dist(&s.poses[k].p, &s.poses[k + 1].p);
                    let ra = rot_angle(&s.poses[k].r, &s.poses[k + 1].r);
                    dens += ((tl / c.check_step_m).ceil() as usize).max((ra / c.check_step_deg.to_radians()).ceil() as usize).max(1);
                }
                if c.include && tail.len() > dens {
                    ctx.class("plan:bisection used");
                }
                // evidence only (not asserted: the statement does not fix how finely the stroke is sampled nor which of several admissible
                // IK answers is followed): does the Cartesian part equal the harness's re-implementation of the documented walk?
                if c.include {
                    let originals: Vec<nalgebra::Isometry3<f64>> = s.poses.iter().map(to_na).collect();
                    let same = match reference_trace(robot, &tail[0].joints, &originals, c.check_step_m, c.check_step_deg.to_radians(), max_cost, &coeffs, c.depth as usize) {
                        Some(rt) => rt.len() == tail.len() && rt.iter().zip(tail.iter()).all(|(a, b)| (0..6).all(|k| (a[k] - b.joints[k]).abs() <= 1e-9)),
                        None => false,
                    };
                    ctx.class(if same { "plan:equals the harness's reference walk (informative)" } else { "plan:differs from the harness's reference walk (informative)" });
                }
                plain_lands.push(tail[0].joints);
                outcomes.push((threads, Outcome::OkPlain));
            }
        }
        // (7) scheduling independence
        let any_plain = outcomes.iter().any(|(_, o)| *o == Outcome::OkPlain);
        let any_err = outcomes.iter().any(|(_, o)| matches!(o, Outcome::Err(_)));
        if outcomes.iter().all(|(_, o)| matches!(o, Outcome::Err(_))) {
            ctx.class("plan:err (all runs)");
            if let Some((_, Outcome::Err(e))) = outcomes.first() {
                let short: String = e.chars().take_while(|ch| !ch.is_ascii_digit()).collect();
                ctx.class(&format!("err:{}", short.trim()));
            }
        }
        if any_plain && any_err {
            // Every strategy is a deterministic function of its landing solution once its joint-space moves need no luck: a run that returned a
            // plan without RRT gap closing proves that its landing solution works; if in addition the straight joint-space segment from the start to
            // that landing solution is free with 5 cm extra clearance (the onboarding RRT then connects whatever it samples), that strategy succeeds
            // in every run - so every run, whatever the schedule, must return a plan.
            let mut wide = c.scene.safety.clone();
            wide.to_environment += 0.05;
            wide.to_robot_default += 0.05;
            for sp in wide.special.iter_mut() {
                if sp.2 >= 0.0 {
                    sp.2 += 0.05;
                }
            }
            wide.mode = 0;
            let wide = wide.build();
            let mut guaranteed = false;
            for sol in &plain_lands {
                let dmax = (0..6).map(|k| (sol[k] - s.start[k]).abs()).fold(0.0, f64::max);
                let steps = ((dmax / (rrt_step / 4.0)).ceil() as usize).max(1);
                let mut free = true;
                for i in 0..=steps {
                    let t = i as f64 / steps as f64;
                    let q: [f64; 6] = std::array::from_fn(|k| s.start[k] + t * (sol[k] - s.start[k]));
                    if !robot.near(&q, &wide).is_empty() {
                        free = false;
                        break;
                    }
                }
                if free {
                    guaranteed = true;
                    break;
                }
            }
            if guaranteed {
                let errs: Vec<String> = outcomes.iter().filter_map(|(t, o)| if let Outcome::Err(e) = o { Some(format!("{} threads: {}", t, e)) } else { None }).collect();
                return Err(viol!(
                    "whether planning succeeds does not depend on thread scheduling when no random re-planning is needed",
                    "some runs returned a plan without RRT gap closing - and the onboarding move to its landing solution is unobstructed - while others failed: {:?}",
                    errs
                ));
            } else {
                ctx.exclude("mixed outcomes, onboarding not guaranteed (random re-planning involved)");
            }
        }
        Ok(())
    }
}
