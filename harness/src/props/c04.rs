//! C04 — continuation IK returns solutions ordered by closeness to the previous joints.

use crate::arc::*;
use crate::engine::*;
use crate::gen::*;
use crate::glue::*;
use crate::model::*;
use crate::props::c02::{contains_mod2pi, margins_ok};
use crate::{ensure, viol};
use proptest::prelude::*;
use rs_opw_kinematics::kinematic_traits::Kinematics;
use serde::{Deserialize, Serialize};

pub struct C04;

#[derive(Clone, Debug, Serialize, Deserialize)]
pub enum Case {
    Single {
        robot: RobotSpec,
        pose: PoseGen,
        prev: PrevGen,
        limits: Option<LimitSpec>,
        /// false: inverse_continuing, true: inverse_continuing_5dof
        five: bool,
    },
    History {
        robot: RobotSpec,
        q0: [f64; 6],
        v: [f64; 6],
        steps: u16,
        limits: Option<LimitSpec>,
    },
}

/// Reference vector the answers are ordered against.
pub fn reference(prev: &[f64; 6], limits: &Option<LimitSpec>) -> [f64; 6] {
    if prev[0].is_nan() {
        match limits {
            Some(l) => oracle_centres(l),
            None => [0.0; 6],
        }
    } else {
        *prev
    }
}

/// Constraint centres used as reference / in the documented cost: the arc midpoints computed by the oracle, in the 2 pi representative the
/// library itself reports in its public `centers` field when that is congruent to the oracle's midpoint (which turn the centre of a
/// wrap-around range is written in is not specified anywhere). A joint with from == to is unconstrained (the whole circle): no document says
/// where the centre of a whole circle lies, so for such a joint the value the library reports (finite) is the centre.
pub fn oracle_centres(l: &LimitSpec) -> [f64; 6] {
    let m = oracle_midpoints(l);
    let c = l.build().centers;
    std::array::from_fn(|k| {
        if l.from[k] == l.to[k] {
            if c[k].is_finite() { c[k] } else { m[k] }
        } else if c[k].is_finite() && crate::model::circ_dist(c[k], m[k]) <= 1e-9 {
            c[k]
        } else {
            m[k]
        }
    })
}

/// Arc midpoints computed by the oracle (documented meaning of "constraint centres").
pub fn oracle_midpoints(l: &LimitSpec) -> [f64; 6] {
    let mut c = [0.0; 6];
    for k in 0..6 {
        let (a, b) = (l.from[k], l.to[k]);
        c[k] = if a == b {
            0.0
        } else if a < b {
            (a + b) / 2.0
        } else {
            let span = (b - a).rem_euclid(TWO_PI);
            a + span / 2.0
        };
    }
    c
}

pub fn l1(a: &[f64; 6], b: &[f64; 6]) -> f64 {
    (0..6).map(|k| (a[k] - b[k]).abs()).sum()
}

/// Documented cost: (1-w)*sum|s-ref| + w*sum|s-centres| (w = 0 without constraints).
pub fn cost(s: &[f64; 6], reference: &[f64; 6], limits: &Option<LimitSpec>) -> f64 {
    match limits {
        None => l1(s, reference),
        Some(l) => {
            let w = l.weight;
            if w == 0.0 {
                l1(s, reference)
            } else {
                (1.0 - w) * l1(s, reference) + w * l1(s, &oracle_centres(l))
            }
        }
    }
}

/// Clauses (a) nearest representative and (b) cost order on a returned list.
pub fn check_order(sols: &[[f64; 6]], reference: &[f64; 6], limits: &Option<LimitSpec>, what: &str) -> Res {
    for s in sols {
        for k in 0..6 {
            let d = (s[k] - reference[k]).abs();
            ensure!(d <= PI + 1e-9, "every returned angle is the 2*pi-representative nearest to the previous angle", "{}: joint {} = {} reference {} (|d|={})", what, k + 1, s[k], reference[k], d);
        }
    }
    for w in sols.windows(2) {
        let (c0, c1) = (cost(&w[0], reference, limits), cost(&w[1], reference, limits));
        ensure!(c0 <= c1 + 1e-9, "the list is in non-decreasing order of the documented cost", "{}: cost {} before cost {} ({:?} before {:?}; reference {:?})", what, c0, c1, w[0], w[1], reference);
    }
    Ok(())
}

impl Property for C04 {
    type Case = Case;
    fn id(&self) -> &'static str {
        "C04"
    }
    fn rule(&self) -> String {
        "single calls: robots (sane families, dof 6 and 5) x reachable poses (incl. near wrist singular) x previous in [-2pi,2pi]^6 / the generating vector / CONSTRAINT_CENTERED x \
         limits {none, wide non-filtering, arbitrary filtering} x weights {0,1,(0,1)} x {inverse_continuing, inverse_continuing_5dof}; histories: joint-space lines q_k=q0+k*v, 20..200 steps, \
         per-joint step <= 0.005 rad, walked while the model margins |sin q5|,|sin(q3+psi3)| > 0.1 and rho^2-b^2 > (0.05 m)^2 hold, previous = preceding first answer. \
         Non-trivial: a single call returning >= 2 answers with previous equal to none of them (ordering exercised), or a history of >= 20 admitted steps."
            .into()
    }
    fn assumptions(&self) -> Vec<String> {
        vec![
            "documented cost: (1-w)*sum|s-ref| + w*sum|s-centres|; ref = previous, or the constraint centres (zeros without constraints) for CONSTRAINT_CENTERED".into(),
            "exact ties in 'nearest representative' accepted either way (pi + 1e-9)".into(),
            "first-answer clause asserted for weight 0 / no limits only (documented meaning of BY_PREV), previous compliant and outside all three singularity margins".into(),
        ]
    }
    fn plan(&self, tier: Tier) -> Plan {
        Plan { workers: tier.pick(4, 16), cases_per_worker: tier.pick(100_000, 500_000), max_shrink_iters: 2000 }
    }
    fn selftest(&self) -> Result<serde_json::Value, String> {
        crate::selftest::model_vs_recorded()
    }
    fn strategy(&self, _tier: Tier) -> BoxedStrategy<Case> {
        let limits = prop_oneof![3 => Just(None), 2 => limits_wide().prop_map(Some), 3 => limits_any().prop_map(Some)];
        let single = (
            prop_oneof![4 => robot_sane(DofChoice::Six), 1 => robot_sane(DofChoice::Five), 1 => robot_negative(DofChoice::Six)],
            prop_oneof![
                8 => joints_2pi().prop_map(|j| PoseGen::Fk { j }),
                1 => (joints_uniform(), -1i8..=1, small_delta()).prop_map(|(j, k, delta)| PoseGen::FkWrist { j, k, delta }),
            ],
            prev_2pi(),
            limits,
            any::<bool>(),
        )
            .prop_map(|(robot, pose, prev, limits, five)| Case::Single { robot, pose, prev, limits, five });
        let history = (
            robot_sane(DofChoice::Six),
            joints_uniform(),
            prop::array::uniform6(-0.005..0.005f64),
            20u16..200,
            prop_oneof![2 => Just(None), 1 => limits_wide().prop_map(|mut l| { l.weight = 0.0; Some(l) })],
        )
            .prop_map(|(robot, q0, v, steps, limits)| Case::History { robot, q0, v, steps, limits });
        prop_oneof![50 => single, 1 => history].boxed()
    }
    fn check(&self, c: &Case, ctx: &mut Ctx) -> Res {
        match c {
            Case::Single { robot: r, pose, prev, limits, five } => {
                for cl in robot_class(r) {
                    ctx.class(cl);
                }
                ctx.class(match limits {
                    None => "limits:none",
                    Some(l) if l.from.iter().zip(l.to.iter()).all(|(a, b)| b - a > TWO_PI) => "limits:wide",
                    Some(_) => "limits:filtering",
                });
                ctx.class(if *five { "entry:inverse_continuing_5dof" } else { "entry:inverse_continuing" });
                let k = match limits {
                    Some(l) => opw_c(r, l.build()),
                    None => opw(r),
                };
                let src = pose.source_joints(r);
                let want = pose.pose(r).unwrap();
                let na = to_na(&want);
                let p = prev.resolve(src);
                if matches!(prev, PrevGen::Centered) {
                    ctx.class("prev:centered-sentinel");
                }
                let reference = reference(&p, limits);
                let what = if *five { "inverse_continuing_5dof" } else { "inverse_continuing" };
                let sols = no_panic(|| if *five { k.inverse_continuing_5dof(&na, &p) } else { k.inverse_continuing(&na, &p) }).map_err(|m| viol!("no panic", "{}: {}", what, m))?;
                ctx.class(&format!("answers:{}", sols.len().min(9)));

                check_order(&sols, &reference, limits, what)?;

                // (c) contains every solution that plain inverse finds (and the limits admit)
                // (for a 5-DOF robot J6 is the caller's value, so the plain counterpart is inverse_5dof with the same J6)
                let plain = no_panic(|| if *five || r.dof == 5 { k.inverse_5dof(&na, p[5]) } else { k.inverse(&na) }).map_err(|m| viol!("no panic", "plain: {}", m))?;
                for u in &plain {
                    if let Some(l) = limits {
                        if arc_member6(&l.from, &l.to, u, 1e-9) != Verdict::In {
                            ctx.exclude("plain answer on/near a limit or not admitted");
                            continue;
                        }
                    }
                    let mut uu = *u;
                    // "the same solution": equal to rounding where the pose determines the wrist angles. Within 1e-5 of a wrist singularity it does not
                    // (J4 and J6 trade against each other inside the solver's 1e-6 acceptance band, and the continuation may reach the branch through
                    // its shifted-pose recovery): there the branch counts as present when J1..J3 and J5 agree to 1e-4
                    let s5 = r.model_angles(u)[4].sin().abs();
                    let near_singular = s5 <= 1e-5;
                    let found = if near_singular {
                        ctx.class("containment: plain answer within 1e-5 of the wrist singularity (J1..J3, J5 compared)");
                        sols.iter().any(|s| [0usize, 1, 2, 4].iter().all(|&k| crate::model::circ_dist(s[k], u[k]) <= 1e-4))
                    } else if *five || r.dof == 5 {
                        // J6 is not solved: compare J1..J5
                        sols.iter().any(|s| {
                            uu[5] = s[5];
                            joints_circ_dist(s, &uu) <= 1e-9
                        })
                    } else {
                        contains_mod2pi(&sols, u, 1e-9)
                    };
                    if !found {
                        return Err(viol!("the continuation list contains every solution that plain inverse finds", "{}: plain answer {:?} missing from {:?}", what, u, sols));
                    }
                }

                // (d) previous realises the pose, is non-singular and compliant, weight 0 => it comes back first
                if let (Some(sj), PrevGen::Source) = (src, prev) {
                    let w0 = limits.map(|l| l.weight == 0.0).unwrap_or(true);
                    let compliant = limits.map(|l| arc_member6(&l.from, &l.to, &sj, 1e-9) == Verdict::In).unwrap_or(true);
                    let in_range = sj.iter().all(|x| x.abs() <= TWO_PI);
                    if r.dof == 6 && !*five && w0 && compliant && in_range {
                        match margins_ok(r, &sj) {
                            Ok(()) => {
                                ensure!(!sols.is_empty(), "previous joints that realise the pose come back as the first solution", "empty answer for previous {:?}", sj);
                                let d = (0..6).map(|t| (sols[0][t] - sj[t]).abs()).fold(0.0, f64::max);
                                ensure!(d <= 1e-6, "previous joints that realise the pose come back as the first solution", "first answer {:?} previous {:?} (max |d|={:e})", sols[0], sj, d);
                                ctx.class("first==previous asserted");
                            }
                            Err(why) => ctx.exclude(why),
                        }
                    }
                }
                let prev_in = sols.iter().any(|s| joints_circ_dist(s, &p) < 1e-9);
                if sols.len() >= 2 && !prev_in {
                    ctx.nontrivial();
                }
                Ok(())
            }
            Case::History { robot: r, q0, v, steps, limits } => {
                let k = match limits {
                    Some(l) => opw_c(r, l.build()),
                    None => opw(r),
                };
                let strict = |j: &[f64; 6]| {
                    let m = r.margins(j);
                    m.wrist > 0.1 && m.elbow > 0.1 && m.shoulder2 > 0.05 * 0.05
                };
                if !strict(q0) {
                    ctx.exclude("history start inside the 0.1 singularity margins");
                    return Ok(());
                }
                let mut prev = *q0;
                let mut walked = 0u32;
                for s in 1..=(*steps as usize) {
                    let mut q = *q0;
                    for t in 0..6 {
                        q[t] += v[t] * s as f64;
                    }
                    if !strict(&q) || q.iter().any(|x| x.abs() > TWO_PI) {
                        ctx.exclude("history truncated at a singularity margin / the +-2pi range");
                        break;
                    }
                    let na = to_na(&r.fk(&q));
                    let sols = no_panic(|| k.inverse_continuing(&na, &prev)).map_err(|m| viol!("no panic", "inverse_continuing: {}", m))?;
                    ensure!(!sols.is_empty(), "a trajectory followed step by step never switches branch", "step {}: empty answer for q={:?}", s, q);
                    let d = (0..6).map(|t| (sols[0][t] - q[t]).abs()).fold(0.0, f64::max);
                    ensure!(d <= 1e-6, "a trajectory followed step by step never switches branch", "step {}: first answer {:?} trajectory {:?} previous {:?} (max |d|={:e})", s, sols[0], q, prev, d);
                    prev = sols[0];
                    walked += 1;
                }
                ctx.class_n("history-steps", walked as u64);
                if walked >= 20 {
                    ctx.class("history>=20");
                    ctx.nontrivial();
                }
                Ok(())
            }
        }
    }
}
