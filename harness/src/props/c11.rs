//! C11 — collision-aware IK returns exactly the non-colliding solutions, in order.

use crate::engine::*;
use crate::gen::*;
use crate::glue::*;
use crate::mesh::*;
use crate::model::*;
use crate::props::c01::{call_entry, ENTRY_NAMES};
use crate::scene::*;
use crate::{ensure, viol};
use proptest::prelude::*;
use rs_opw_kinematics::collisions::{CheckMode, CollisionBody};
use rs_opw_kinematics::constraints::Constraints;
use rs_opw_kinematics::kinematic_traits::Kinematics;
use rs_opw_kinematics::kinematics_impl::OPWKinematics;
use rs_opw_kinematics::kinematics_with_shape::KinematicsWithShape;
use rs_opw_kinematics::tool::{Base, Tool};
use serde::{Deserialize, Serialize};
use std::sync::Arc;

pub struct C11;

#[derive(Clone, Debug, Serialize, Deserialize)]
pub struct Case {
    pub scene: Scene,
    pub tool_tf: IsoSpec,
    pub limits: LimitSpec,
    /// 0 new(first_collision_only = true), 1 new(false), 2 with_safety(scene.safety)
    pub ctor: u8,
    pub j: [f64; 6],
    pub prev: PrevGen,
    pub entry: u8,
    pub j6: f64,
}

/// Build the robot through the public constructors; returns it with the hand-built documented stack.
pub fn construct(c_scene: &Scene, tool_tf: &IsoSpec, limits: &LimitSpec, ctor: u8, j_ref: &[f64; 6]) -> (KinematicsWithShape, Tool, Built) {
    // reuse the literal builder for meshes / environment placement
    let built = c_scene.build(j_ref);
    let params = params(&c_scene.robot);
    let cons = Constraints::new(limits.from, limits.to, limits.weight);
    let base_tf = to_na(&c_scene.base_iso());
    let tool_na = to_na(&tool_tf.iso());
    let link_meshes: [parry3d::shape::TriMesh; 6] = std::array::from_fn(|i| built.link_mesh[i].trimesh());
    let tool_mesh = built.tool_mesh.as_ref().expect("C11 scenes have a tool").trimesh();
    let base_mesh = built.base_mesh.as_ref().expect("C11 scenes have a base").0.trimesh();
    let env: Vec<CollisionBody> = built.env_mesh.iter().map(|(m, p)| CollisionBody { mesh: m.trimesh(), pose: iso_to_f32(p) }).collect();
    let robot = match ctor % 3 {
        0 => KinematicsWithShape::new(params, cons, link_meshes, base_mesh, base_tf, tool_mesh, tool_na, env, true),
        1 => KinematicsWithShape::new(params, cons, link_meshes, base_mesh, base_tf, tool_mesh, tool_na, env, false),
        _ => KinematicsWithShape::with_safety(params, cons, link_meshes, base_mesh, base_tf, tool_mesh, tool_na, env, c_scene.safety.build()),
    };
    let stack = Tool { robot: Arc::new(Base { robot: Arc::new(OPWKinematics::new_with_constraints(params, cons)), base: base_tf }), tool: tool_na };
    (robot, stack, built)
}

pub fn c11_scene(max_env: usize) -> BoxedStrategy<Scene> {
    scene_strategy(max_env)
        .prop_flat_map(|s| {
            (
                Just(s),
                (0.05..0.4f32, 0.02..0.08f32, 0u8..2),
                (prop_oneof![Just(IsoSpec::identity()), iso_strategy(1.0)], prop::array::uniform2(0.1..0.5f32), 0.05..0.5f32, 0u8..2),
            )
        })
        .prop_map(|(mut s, tool, base)| {
            if s.tool.is_none() {
                s.tool = Some(tool);
            }
            if s.base.is_none() {
                s.base = Some(base);
            }
            // the table may not name bodies that were added afterwards; it stays valid (indices exist now)
            s
        })
        .boxed()
}

impl Property for C11 {
    type Case = Case;
    fn id(&self) -> &'static str {
        "C11"
    }
    fn rule(&self) -> String {
        "robots with shape built through new(first_collision_only in {true,false}) and with_safety(table) x box bodies, tool and base x 0..3 environment boxes attached (mostly penetrating) to a link / the tool of the generating posture, so that some but not all IK branches collide \
         x limits (wide or a window) x poses (stack forward of a joint vector) x previous x four entry points. Non-trivial: the underlying stack's answer contains both kept and dropped solutions."
            .into()
    }
    fn assumptions(&self) -> Vec<String> {
        vec![
            "the underlying stack is the robot's public `kinematics`; the answer of the robot with shape must equal that stack's answer filtered by the robot's own collides(), bit-equal and in order (that collides itself is right is decided by C10); the stack is compared with a hand-built Tool{Base{OPW + limits}} and with the model composition to 1e-9 (nesting order inside is free)".into(),
            "positioned_robot: six joint transforms equal the f32 cast of the stack's link poses; tool at the sixth; environment complete".into(),
        ]
    }
    fn plan(&self, tier: Tier) -> Plan {
        Plan { workers: tier.pick(4, 16), cases_per_worker: tier.pick(1_500, 6_000), max_shrink_iters: 400 }
    }
    fn strategy(&self, _tier: Tier) -> BoxedStrategy<Case> {
        (
            c11_scene(3),
            iso_strategy(0.3),
            prop_oneof![2 => limits_wide(), 1 => limits_any()],
            0u8..3,
            (joints_uniform(), prop_oneof![2 => Just(None), 1 => (-1i8..=1, prop_oneof![1 => small_delta(), 2 => (1e-8..3e-5f64, any::<bool>()).prop_map(|(d, n)| if n { -d } else { d })]).prop_map(Some)]),
            prev_2pi(),
            0u8..4,
            -3.0..3.0f64,
        )
            .prop_map(|(mut scene, tool_tf, limits, ctor, (j, wrist), prev, entry, j6)| {
                // near / exactly wrist-singular generating postures: the continuation entry point then returns a ninth, recovered answer
                let j = match wrist {
                    Some((k, delta)) => wrist_joints(&scene.robot, &j, k, delta),
                    None => j,
                };
                // make most attached boxes penetrate: they then hit exactly the generating branch
                for (k, e) in scene.env.iter_mut().enumerate() {
                    if k == 0 {
                        if e.gap_factor > 0.0 {
                            e.gap_factor = -0.5;
                        }
                        // forearm / wrist / tool: bodies whose placement differs between IK branches
                        e.attach = 2 + e.attach % 5;
                    } else if e.gap_factor < 1.0 {
                        e.gap_factor = 1.5;
                    }
                }
                scene.slim = true;
                // moderate margins so that the arm is not permanently "too close" to itself
                scene.safety.to_robot_default = scene.safety.to_robot_default.min(0.02);
                scene.safety.to_environment = scene.safety.to_environment.min(0.05);
                for sp in scene.safety.special.iter_mut() {
                    if sp.2 > 0.0 {
                        sp.2 = sp.2.min(0.03);
                    }
                }
                for r in scene.link_r.iter_mut() {
                    *r = r.min(0.04);
                }
                if let Some(b) = scene.base.as_mut() {
                    b.1 = [b.1[0].min(0.2), b.1[1].min(0.2)];
                }
                Case { scene, tool_tf, limits, ctor, j, prev, entry, j6 }
            })
            .boxed()
    }
    fn check(&self, c: &Case, ctx: &mut Ctx) -> Res {
        if c.scene.safety.ambiguous() {
            ctx.exclude("ambiguous safety table");
            return Ok(());
        }
        let (mut robot, stack, _built) = construct(&c.scene, &c.tool_tf, &c.limits, c.ctor, &c.j);
        let entry = c.entry % 4;
        let what = ENTRY_NAMES[entry as usize];
        ctx.class(["ctor:new(first_only)", "ctor:new(all)", "ctor:with_safety"][(c.ctor % 3) as usize]);
        ctx.class(&format!("entry:{}", what));
        // constructor semantics
        match c.ctor % 3 {
            0 => ensure!(robot.body.safety.mode == CheckMode::FirstCollisionOnly, "new(first_collision_only = true) selects first-collision mode", "{:?}", robot.body.safety.mode),
            1 => ensure!(robot.body.safety.mode == CheckMode::AllCollsions, "new(first_collision_only = false) selects all-collisions mode", "{:?}", robot.body.safety.mode),
            _ => {}
        }
        // request pose: stack forward of j through the model
        let tcp = c.scene.base_iso().mul(&c.scene.robot.fk(&c.j)).mul(&c.tool_tf.iso());
        let na = to_na(&tcp);
        let prev = c.prev.resolve(Some(c.j));
        // the underlying stack is the robot's own public `kinematics` (how base, tool and limits are nested inside it is not part of the
        // statement); the hand-built Tool{Base{OPW + limits}} is compared with it to rounding below
        let under = robot.kinematics.clone();
        let u = call_entry(under.as_ref(), entry, &na, &prev, c.j6).map_err(|m| viol!("no panic", "stack {}: {}", what, m))?;
        let r = call_entry(&robot, entry, &na, &prev, c.j6).map_err(|m| viol!("no panic", "robot with shape {}: {}", what, m))?;
        // the same query put a second time to the same robot gives the same answer (no state carried between calls)
        let r_again = call_entry(&robot, entry, &na, &prev, c.j6).map_err(|m| viol!("no panic", "robot with shape {} (second call): {}", what, m))?;
        ensure!(r_again.len() == r.len() && r_again.iter().zip(r.iter()).all(|(a, b)| (0..6).all(|t| a[t].to_bits() == b[t].to_bits())), "the same query gives the same answer when repeated", "{}: first {:?} second {:?}", what, r, r_again);
        let mut expect = Vec::new();
        let mut dropped = 0;
        for s in &u {
            let col = no_panic(|| robot.collides(s)).map_err(|m| viol!("no panic", "collides: {}", m))?;
            if !col {
                expect.push(*s);
            } else {
                dropped += 1;
            }
        }
        ensure!(
            r.len() == expect.len() && r.iter().zip(expect.iter()).all(|(a, b)| (0..6).all(|t| a[t].to_bits() == b[t].to_bits())),
            "each inverse entry point of a robot with shape returns precisely the non-colliding solutions of the underlying stack, in unchanged order",
            "{}: got {:?} expected {:?} (underlying stack answer {:?})",
            what,
            r,
            expect,
            u
        );
        // delegation of forward / link poses / limits / singularity
        let f_r = robot.forward(&c.j);
        let f_s = under.forward(&c.j);
        ensure!(f_r == f_s, "forward is that of the underlying stack", "{:?} vs {:?}", f_r, f_s);
        let l_r = robot.forward_with_joint_poses(&c.j);
        let l_s = under.forward_with_joint_poses(&c.j);
        ensure!(l_r == l_s, "link poses are those of the underlying stack", "{:?} vs {:?}", l_r, l_s);
        // ... and that stack is base -> robot(limits) -> tool: equal to the hand-built one up to rounding
        {
            let size = 1.0 + c.scene.robot.reach() + norm(&c.tool_tf.t) + norm(&c.scene.base_iso().p);
            let close = |a: &nalgebra::Isometry3<f64>, b: &nalgebra::Isometry3<f64>| (a.translation.vector - b.translation.vector).norm() <= 1e-9 * size && a.rotation.angle_to(&b.rotation) <= 1e-9;
            let f_h = stack.forward(&c.j);
            ensure!(close(&f_s, &f_h), "the underlying stack is base -> robot(limits) -> tool", "forward {:?} vs hand-built {:?}", f_s, f_h);
            let l_h = stack.forward_with_joint_poses(&c.j);
            for i in 0..6 {
                ensure!(close(&l_s[i], &l_h[i]), "the underlying stack is base -> robot(limits) -> tool", "link {}: {:?} vs hand-built {:?}", i + 1, l_s[i], l_h[i]);
            }
        }
        // ... and the stack itself is base * robot * tool around the model
        let fm = from_na(&f_r).ok_or_else(|| viol!("finite", "{:?}", f_r))?;
        ensure!(dist(&fm.p, &tcp.p) <= 1e-9 * (1.0 + c.scene.robot.reach() + norm(&c.tool_tf.t) + norm(&c.scene.base_iso().p)) && rot_angle(&fm.r, &tcp.r) <= 1e-9, "the underlying stack is base -> robot(limits) -> tool", "dp={:e}", dist(&fm.p, &tcp.p));
        let (cr, cs) = (robot.constraints(), under.constraints());
        match (cr, cs) {
            (Some(a), Some(b)) => ensure!(a.from == b.from && a.to == b.to && a.sorting_weight == b.sorting_weight && a.from == c.limits.from && a.to == c.limits.to, "limits are those of the underlying stack", "{:?} vs {:?}", a, b),
            _ => return Err(viol!("limits are those of the underlying stack", "missing limits")),
        }
        ensure!(robot.kinematic_singularity(&c.j) == under.kinematic_singularity(&c.j), "singularity reports are those of the underlying stack", "differs at {:?}", c.j);
        ensure!(under.kinematic_singularity(&c.j) == stack.kinematic_singularity(&c.j), "the underlying stack is base -> robot(limits) -> tool", "singularity report differs from the hand-built stack at {:?}", c.j);
        // positioned robot (single precision: equal up to a few f32 rounding steps, e.g. a re-normalised quaternion)
        let close32 = |a: &nalgebra::Isometry3<f32>, b: &nalgebra::Isometry3<f32>| {
            let scale = 1.0 + b.translation.vector.norm();
            (a.translation.vector - b.translation.vector).norm() <= 4e-6 * scale && a.rotation.angle_to(&b.rotation) <= 2e-3 && (a.rotation.coords - b.rotation.coords).norm().min((a.rotation.coords + b.rotation.coords).norm()) <= 4e-6
        };
        let pr = robot.positioned_robot(&c.j);
        ensure!(pr.joints.len() == 6, "positioned_robot has six joints", "{}", pr.joints.len());
        for i in 0..6 {
            ensure!(close32(&pr.joints[i].transform, &l_s[i].cast::<f32>()), "body meshes are placed at the link poses of the underlying stack", "joint {}: {:?} vs {:?}", i + 1, pr.joints[i].transform, l_s[i].cast::<f32>());
        }
        match &pr.tool {
            Some(t) => ensure!(close32(&t.transform, &l_s[5].cast::<f32>()), "the tool mesh is placed at the sixth link pose", "{:?}", t.transform),
            None => return Err(viol!("the tool mesh is present", "none")),
        }
        ensure!(pr.environment.len() == c.scene.env.len(), "the environment list is complete", "{} vs {}", pr.environment.len(), c.scene.env.len());
        ctx.class(&format!("underlying-answers:{}", u.len().min(9)));
        ctx.class_n("underlying-answers-kept", expect.len() as u64);
        ctx.class_n("underlying-answers-dropped", dropped as u64);
        if !expect.is_empty() && dropped > 0 {
            ctx.nontrivial();
        }
        // history: the cell changes between two calls (the body and its environment are public fields). An obstacle is put
        // onto a link of the first kept answer; the next call must again return precisely what collides() lets through now.
        if let Some(s0) = expect.first() {
            let li = 2 + ((c.ctor as usize + c.entry as usize) % 4);
            let at = stack.forward_with_joint_poses(s0)[li];
            let m = MeshSpec { lo: [-0.04, -0.04, -0.04], hi: [0.04, 0.04, 0.04], fan: 0 };
            robot.body.collision_environment.push(CollisionBody { mesh: m.trimesh(), pose: at.cast::<f32>() });
            let r2 = call_entry(&robot, entry, &na, &prev, c.j6).map_err(|m| viol!("no panic", "robot with shape {} (after an obstacle was added): {}", what, m))?;
            let mut expect2 = Vec::new();
            for s in &u {
                if !no_panic(|| robot.collides(s)).map_err(|m| viol!("no panic", "collides: {}", m))? {
                    expect2.push(*s);
                }
            }
            ensure!(
                r2.len() == expect2.len() && r2.iter().zip(expect2.iter()).all(|(a, b)| (0..6).all(|t| a[t].to_bits() == b[t].to_bits())),
                "each inverse entry point of a robot with shape returns precisely the non-colliding solutions of the underlying stack, in unchanged order",
                "{} after an obstacle was added to robot.body.collision_environment at link {} of {:?}: got {:?} expected {:?} (before the obstacle: {:?})",
                what,
                li + 1,
                s0,
                r2,
                expect2,
                expect
            );
            ctx.class("history:obstacle added between two calls");
            if expect2.len() < expect.len() {
                ctx.class("history:obstacle removes a previously kept answer");
            }
        }
        Ok(())
    }
}
