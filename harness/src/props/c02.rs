//! C02 — inverse kinematics is complete away from singularities.

use crate::engine::*;
use crate::gen::*;
use crate::glue::*;
use crate::model::*;
use crate::{ensure, viol};
use proptest::prelude::*;
use rs_opw_kinematics::kinematic_traits::Kinematics;
use serde::{Deserialize, Serialize};

pub struct C02;

#[derive(Clone, Debug, Serialize, Deserialize)]
pub struct Case {
    pub robot: RobotSpec,
    pub j: [f64; 6],
    /// call history: the same pose is first put to this other robot (answers ignored)
    #[serde(default)]
    pub other: Option<RobotSpec>,
    /// the pose is handed over in the other quaternion representative (-q, the same rotation)
    #[serde(default)]
    pub neg_q: bool,
}

pub const WRIST_MARGIN: f64 = 0.01;
pub const ELBOW_MARGIN: f64 = 0.01;
pub const SHOULDER_MARGIN: f64 = 0.01;

/// Is the joint vector outside all three singularity margins (model side)?
pub fn margins_ok(r: &RobotSpec, j: &[f64; 6]) -> Result<(), &'static str> {
    let m = r.margins(j);
    if m.wrist <= WRIST_MARGIN {
        return Err("margin:wrist |sin q5| <= 0.01");
    }
    if m.elbow <= ELBOW_MARGIN {
        return Err("margin:elbow |sin(q3+psi3)| <= 0.01");
    }
    if m.shoulder2 <= SHOULDER_MARGIN * SHOULDER_MARGIN {
        return Err("margin:shoulder rho^2-b^2 <= (0.01 m)^2");
    }
    Ok(())
}

pub fn contains_mod2pi(set: &[[f64; 6]], q: &[f64; 6], tol: f64) -> bool {
    set.iter().any(|s| joints_circ_dist(s, q) <= tol)
}

/// Wrist-flipped twin in joint space: model (q4+pi, -q5, q6-pi).
pub fn wrist_twin(r: &RobotSpec, s: &[f64; 6]) -> [f64; 6] {
    let mut q = r.model_angles(s);
    q[3] += PI;
    q[4] = -q[4];
    q[5] -= PI;
    let mut out = *s;
    for k in 3..6 {
        out[k] = (q[k] + r.offsets[k]) * r.signs[k] as f64;
    }
    out
}

impl Property for C02 {
    type Case = Case;
    fn id(&self) -> &'static str {
        "C02"
    }
    fn rule(&self) -> String {
        "robots: catalogue / realistic / negative-length families, dof 6, all 64 sign patterns, offsets; joint vectors uniform in [-pi,pi]^6 (plus wide ones, and ones with some joints exactly on a multiple of pi/2), admitted when the \
         model-computed margins hold: |sin q5|>0.01, |sin(q3+psi3)|>0.01, rho^2-b^2>(0.01 m)^2; excluded vectors are counted per margin. Every admitted case is non-trivial (all \
         closed-form branches are exercised); distinct = distinct serialized cases. Closure clauses are asserted for every returned answer that itself satisfies the margins."
            .into()
    }
    fn assumptions(&self) -> Vec<String> {
        vec!["oracle M validated against the recorded C++ cases".into(), "membership modulo 2*pi within 1e-6 rad per joint".into()]
    }
    fn plan(&self, tier: Tier) -> Plan {
        Plan { workers: tier.pick(4, 16), cases_per_worker: tier.pick(150_000, 1_000_000), max_shrink_iters: 4000 }
    }
    fn selftest(&self) -> Result<serde_json::Value, String> {
        crate::selftest::model_vs_recorded()
    }
    fn strategy(&self, _tier: Tier) -> BoxedStrategy<Case> {
        (
            prop_oneof![3 => robot_catalogue(DofChoice::Six), 5 => robot_realistic(DofChoice::Six), 2 => robot_negative(DofChoice::Six), 2 => robot_zeroed(DofChoice::Six)],
            prop_oneof![8 => joints_uniform(), 1 => joints_wide(), 2 => joints_some_lattice()],
            other_robot(DofChoice::Six, false),
            prop::bool::weighted(0.25),
        )
            .prop_map(|(robot, j, other, neg_q)| {
                let other = resolve_other(&robot, other, false);
                Case { robot, j, other, neg_q }
            })
            .boxed()
    }
    fn check(&self, c: &Case, ctx: &mut Ctx) -> Res {
        let r = &c.robot;
        if let Err(why) = margins_ok(r, &c.j) {
            ctx.exclude(why);
            return Ok(());
        }
        for cl in robot_class(r) {
            ctx.class(cl);
        }
        let k = opw(r);
        let pose = r.fk(&c.j);
        let mut na = to_na(&pose);
        if c.neg_q {
            na.rotation = nalgebra::UnitQuaternion::new_unchecked(-na.rotation.into_inner());
            ctx.class("pose handed over as -q");
        }
        if let Some(o) = &c.other {
            let ko = opw(o);
            let _ = no_panic(|| ko.inverse(&na)).map_err(|m| viol!("inverse never panics", "other robot: {}", m))?;
            ctx.class("history:another robot was asked for the same pose first");
        }
        let sols = no_panic(|| k.inverse(&na)).map_err(|m| viol!("inverse never panics", "{}", m))?;
        ctx.class(&format!("answers:{}", sols.len()));
        ensure!(
            contains_mod2pi(&sols, &c.j, 1e-6),
            "the generating configuration is among the answers (mod 2pi)",
            "q={:?} not in {:?} (nearest distance {:e})",
            c.j,
            sols,
            sols.iter().map(|s| joints_circ_dist(s, &c.j)).fold(f64::INFINITY, f64::min)
        );
        // closure
        let good: Vec<&[f64; 6]> = sols.iter().filter(|s| margins_ok(r, s).is_ok()).collect();
        ctx.class_n("answers-within-margins", good.len() as u64);
        ctx.class_n("answers-outside-margins(excluded from closure clauses)", (sols.len() - good.len()) as u64);
        for (a, s) in good.iter().enumerate() {
            for t in good.iter().skip(a + 1) {
                ensure!(joints_circ_dist(s, t) > 1e-6, "the answer set contains no duplicates", "{:?} and {:?}", s, t);
            }
            let twin = wrist_twin(r, s);
            ensure!(contains_mod2pi(&sols, &twin, 1e-6), "the answer set contains the wrist-flipped twin (J4+pi,-J5,J6-pi) of each answer", "answer {:?} twin {:?} set {:?}", s, twin, sols);
            // same size for the pose of each returned solution (only when all answers are inside the margins,
            // otherwise a borderline branch may legitimately flip)
            if good.len() == sols.len() {
                let p2 = to_na(&r.fk(s));
                let sols2 = no_panic(|| k.inverse(&p2)).map_err(|m| viol!("inverse never panics", "{}", m))?;
                // (a branch of the same pose that is exactly singular - e.g. J5 = pi when some joints sit on round values - may or may not be found,
                // depending on rounding; the statement promises completeness away from singularities only. All answers for q are away from
                // singularities here, so each of them must have its counterpart among the answers for the pose of s; that pose differs from
                // the requested one by up to the solver's 1e-6 band, hence the counterpart is looked for within 1e-3)
                let missing = sols.iter().filter(|u| !contains_mod2pi(&sols2, u, 1e-3)).count();
                ensure!(missing == 0, "the answer set has the same size for the pose of each returned solution", "{} answers for q, {} of them without a counterpart among the {} answers for the pose of answer {:?}", sols.len(), missing, sols2.len(), s);
                ensure!(contains_mod2pi(&sols2, s, 1e-6), "each returned solution is found again from its own pose", "{:?} not in {:?}", s, sols2);
            }
        }
        ctx.nontrivial();
        Ok(())
    }
}
