//! Robot-with-shape scenes: box-bodied robots, tool, base, environment, safety tables — built on the
//! library side (KinematicsWithShape literal) and mirrored on the oracle side (placed triangle sets).

use crate::gen::IsoSpec;
use crate::glue::*;
use crate::mesh::*;
use crate::model::*;
use proptest::prelude::*;
use rs_opw_kinematics::collisions::{BaseBody, CheckMode, CollisionBody, RobotBody, SafetyDistances, NEVER_COLLIDES};
use rs_opw_kinematics::constraints::Constraints;
use rs_opw_kinematics::kinematic_traits::{Kinematics, ENV_START_IDX, J_BASE, J_TOOL};
use rs_opw_kinematics::kinematics_with_shape::KinematicsWithShape;
use rs_opw_kinematics::tool::Base;
use serde::{Deserialize, Serialize};
use std::collections::HashMap;
use std::sync::Arc;

#[derive(Clone, Debug, PartialEq, Serialize, Deserialize)]
pub struct EnvSpec {
    /// 0..5 link, 6 tool (falls back to link 6 when there is no tool), 7 free placement
    pub attach: u8,
    /// gap as a factor of max(pair safety distance, 0.02 m); negative = penetrating
    pub gap_factor: f64,
    pub half: [f32; 3],
    /// side of the attached body: 0 +x, 1 -x, 2 +y, 3 -y, 4 +z, 5 -z (in the body's local frame)
    pub side: u8,
    /// rotation about the side axis (keeps the facing faces parallel, so the gap stays exact)
    pub spin: f64,
    pub fan: u8,
    pub free_pose: IsoSpec,
}

#[derive(Clone, Debug, PartialEq, Serialize, Deserialize)]
pub struct SafetySpec {
    pub to_environment: f32,
    pub to_robot_default: f32,
    /// (a, b, value): reporting indices (0..5 joints, 100 tool, 101 base, 1000+k environment)
    pub special: Vec<(u16, u16, f32)>,
    /// 0 FirstCollisionOnly, 1 AllCollsions, 2 NoCheck
    pub mode: u8,
}

impl SafetySpec {
    pub fn touch(mode: u8) -> SafetySpec {
        SafetySpec { to_environment: 0.0, to_robot_default: 0.0, special: vec![], mode }
    }
    pub fn build(&self) -> SafetyDistances {
        let mut m = HashMap::new();
        for (a, b, v) in &self.special {
            m.insert((*a, *b), *v);
        }
        SafetyDistances {
            to_environment: self.to_environment,
            to_robot_default: self.to_robot_default,
            special_distances: m,
            mode: match self.mode % 3 {
                0 => CheckMode::FirstCollisionOnly,
                1 => CheckMode::AllCollsions,
                _ => CheckMode::NoCheck,
            },
        }
    }
    /// The pair's limit by the statement: override (either key order), else environment default if an
    /// environment body is involved, else robot default. Later entries for the same pair win (HashMap insert).
    pub fn limit(&self, a: usize, b: usize) -> f32 {
        let mut direct = None;
        let mut swapped = None;
        for (x, y, v) in &self.special {
            if (*x as usize, *y as usize) == (a, b) {
                direct = Some(*v);
            }
            if (*x as usize, *y as usize) == (b, a) {
                swapped = Some(*v);
            }
        }
        if let Some(v) = direct {
            return v;
        }
        if let Some(v) = swapped {
            return v;
        }
        if a >= ENV_START_IDX || b >= ENV_START_IDX {
            self.to_environment
        } else {
            self.to_robot_default
        }
    }
    /// Does the table give two different values for the same unordered pair (ambiguous)?
    pub fn ambiguous(&self) -> bool {
        for (i, (a, b, v)) in self.special.iter().enumerate() {
            for (c, d, w) in self.special.iter().skip(i + 1) {
                if ((a, b) == (d, c)) && v != w {
                    return true;
                }
            }
        }
        false
    }
}

#[derive(Clone, Debug, PartialEq, Serialize, Deserialize)]
pub struct Scene {
    pub robot: RobotSpec,
    /// thickness (m) of each link box and its vertex-count variant
    pub link_r: [f32; 6],
    pub link_fan: [u8; 6],
    /// tool box: length along the flange z axis, half width, fan
    pub tool: Option<(f32, f32, u8)>,
    /// base: placement of the robot, half extents (x,y), height, fan
    pub base: Option<(IsoSpec, [f32; 2], f32, u8)>,
    pub env: Vec<EnvSpec>,
    pub safety: SafetySpec,
    pub limits: Option<crate::gen::LimitSpec>,
    /// slim bodies: link boxes cover only the middle 40 % of each link (fewer permanent self-collisions)
    #[serde(default)]
    pub slim: bool,
    /// use the bundled RX160 STL meshes (and the RX160 geometry) for links and base instead of generated boxes
    #[serde(default)]
    pub rx160: bool,
}

/// Geometry of one body on the oracle side: a generated box, or a mesh loaded from a file (bundled RX160 STL).
#[derive(Clone)]
pub enum Geom {
    Box(MeshSpec),
    Data(Arc<TriData>, Arc<parry3d::shape::TriMesh>),
}

impl Geom {
    pub fn world_tris(&self, pose: &Iso) -> Vec<Tri> {
        match self {
            Geom::Box(m) => m.world_tris(pose),
            Geom::Data(d, _) => d.world_tris(pose),
        }
    }
    pub fn trimesh(&self) -> parry3d::shape::TriMesh {
        match self {
            Geom::Box(m) => m.trimesh(),
            Geom::Data(_, t) => (**t).clone(),
        }
    }
    pub fn lo_hi(&self) -> ([f32; 3], [f32; 3]) {
        match self {
            Geom::Box(m) => (m.lo, m.hi),
            Geom::Data(d, _) => (d.lo, d.hi),
        }
    }
    pub fn centre(&self) -> V3 {
        let (lo, hi) = self.lo_hi();
        [(lo[0] + hi[0]) as f64 * 0.5, (lo[1] + hi[1]) as f64 * 0.5, (lo[2] + hi[2]) as f64 * 0.5]
    }
    pub fn half(&self) -> V3 {
        let (lo, hi) = self.lo_hi();
        [(hi[0] - lo[0]) as f64 * 0.5, (hi[1] - lo[1]) as f64 * 0.5, (hi[2] - lo[2]) as f64 * 0.5]
    }
}

/// One closed body wholly inside the other without surface contact (solid vs surface semantics differ): exact for two boxes,
/// bounding-box containment (conservative: may only add "undecided") when a file mesh is involved.
pub fn geom_contained(a: &Geom, pa: &Iso, ta: &[Tri], b: &Geom, pb: &Iso, tb: &[Tri]) -> bool {
    match (a, b) {
        (Geom::Box(x), Geom::Box(y)) => contained(x, pa, y, pb),
        _ => {
            let (la, ha) = set_aabb(ta);
            let (lb, hb) = set_aabb(tb);
            let a_in_b = (0..3).all(|k| la[k] >= lb[k] && ha[k] <= hb[k]);
            let b_in_a = (0..3).all(|k| lb[k] >= la[k] && hb[k] <= ha[k]);
            a_in_b || b_in_a
        }
    }
}

pub struct Rx160Meshes {
    pub links: Vec<Geom>,
    pub base: Geom,
}

static RX160: std::sync::OnceLock<Option<Rx160Meshes>> = std::sync::OnceLock::new();

/// The bundled Staubli RX160 link meshes (src/tests/data/staubli/rx160/*.stl of the repository).
pub fn rx160_meshes() -> Option<&'static Rx160Meshes> {
    RX160
        .get_or_init(|| {
            let dir = crate::engine::repo_root().join("src/tests/data/staubli/rx160");
            let load = |name: &str| -> Option<Geom> {
                let p = dir.join(name);
                let m = crate::engine::no_panic(|| rs_read_trimesh::load_trimesh(p.to_str()?, 1.0).ok()).ok()??;
                Some(Geom::Data(Arc::new(TriData::from_trimesh(&m)), Arc::new(m)))
            };
            let mut links = Vec::new();
            for i in 1..=6 {
                links.push(load(&format!("link_{}.stl", i))?);
            }
            Some(Rx160Meshes { links, base: load("base_link.stl")? })
        })
        .as_ref()
}

pub fn rx160_spec() -> RobotSpec {
    RobotSpec { a1: 0.15, a2: 0.0, b: 0.0, c1: 0.55, c2: 0.825, c3: 0.625, c4: 0.11, offsets: [0.0; 6], signs: [1; 6], dof: 6 }
}

pub struct Built {
    pub robot: KinematicsWithShape,
    /// oracle side
    pub link_mesh: [Geom; 6],
    pub tool_mesh: Option<Geom>,
    pub base_mesh: Option<(Geom, Iso)>,
    pub env_mesh: Vec<(Geom, Iso)>,
    pub base_iso: Iso,
}

/// Box of link i in its own frame: spans 70 % of the way to the next joint, thickened by r.
pub fn link_box(r: &RobotSpec, i: usize, thick: f32, fan: u8, slim: bool) -> MeshSpec {
    let (c_lo, c_hi) = if slim { (0.3, 0.7) } else { (0.15, 0.85) };
    let next: [V3; 6] = [[r.a1, r.b, 0.0], [0.0, 0.0, r.c2], [r.a2, 0.0, 0.0], [0.0, 0.0, r.c3], [0.0, 0.0, r.c4], [0.0, 0.0, 0.0]];
    let o = next[i];
    let mut lo = [0f32; 3];
    let mut hi = [0f32; 3];
    for k in 0..3 {
        let a = (o[k] * c_lo) as f32;
        let b = (o[k] * c_hi) as f32;
        lo[k] = a.min(b) - thick;
        hi[k] = a.max(b) + thick;
    }
    MeshSpec { lo, hi, fan: fan % 2 }
}

impl Scene {
    /// Model-side link poses (with base) for joints j.
    pub fn link_poses(&self, j: &[f64; 6]) -> [Iso; 6] {
        let b = self.base_iso();
        let l = self.robot.links(j);
        [b.mul(&l[0]), b.mul(&l[1]), b.mul(&l[2]), b.mul(&l[3]), b.mul(&l[4]), b.mul(&l[5])]
    }
    pub fn base_iso(&self) -> Iso {
        self.base.as_ref().map(|b| b.0.iso()).unwrap_or(Iso::identity())
    }

    /// Build the library robot and the oracle mirrors. `j_ref` is the joint vector relative to which
    /// attached environment boxes are placed.
    pub fn build(&self, j_ref: &[f64; 6]) -> Built {
        let r = &self.robot;
        let rx = if self.rx160 { rx160_meshes() } else { None };
        let link_mesh: [Geom; 6] = std::array::from_fn(|i| match rx {
            Some(m) => m.links[i].clone(),
            None => Geom::Box(link_box(r, i, self.link_r[i], self.link_fan[i], self.slim)),
        });
        let tool_mesh = self.tool.map(|(len, w, fan)| Geom::Box(MeshSpec { lo: [-w, -w, 0.0], hi: [w, w, len], fan: fan % 2 }));
        let base_iso = self.base_iso();
        let base_mesh = self.base.as_ref().map(|(_, hxy, h, fan)| {
            (
                match rx {
                    Some(m) => m.base.clone(),
                    None => Geom::Box(MeshSpec { lo: [-hxy[0], -hxy[1], -*h], hi: [hxy[0], hxy[1], 0.0], fan: fan % 2 }),
                },
                base_iso,
            )
        });
        let poses = self.link_poses(j_ref);
        // environment
        let mut env_mesh: Vec<(Geom, Iso)> = Vec::new();
        let mut env_bodies: Vec<CollisionBody> = Vec::new();
        for (k, e) in self.env.iter().enumerate() {
            let m = MeshSpec { lo: [-e.half[0], -e.half[1], -e.half[2]], hi: e.half, fan: e.fan % 2 };
            let pose = if e.attach % 8 == 7 {
                e.free_pose.iso()
            } else {
                let (body, body_pose, body_id): (&Geom, Iso, usize) = if e.attach % 8 == 6 && tool_mesh.is_some() {
                    (tool_mesh.as_ref().unwrap(), poses[5], J_TOOL)
                } else {
                    let i = (e.attach % 8).min(5) as usize;
                    (&link_mesh[i], poses[i], i)
                };
                let rr = self.safety.limit(body_id, ENV_START_IDX + k).max(0.0) as f64;
                let gap = e.gap_factor * rr.max(0.02);
                let axis = (e.side % 6 / 2) as usize;
                let sign = if e.side % 2 == 0 { 1.0 } else { -1.0 };
                let c = body.centre();
                let h = body.half();
                let mut centre = c;
                centre[axis] += sign * (h[axis] + e.half[axis] as f64 + gap);
                let mut ax = [0.0; 3];
                ax[axis] = 1.0;
                let local = Iso::new(axis_angle(&ax, e.spin), centre);
                body_pose.mul(&local)
            };
            let pose32 = iso_to_f32(&pose);
            env_mesh.push((Geom::Box(m.clone()), iso_from_f32(&pose32)));
            env_bodies.push(CollisionBody { mesh: m.trimesh(), pose: pose32 });
        }
        let opw: Arc<dyn Kinematics> = match &self.limits {
            Some(l) => Arc::new(opw_c(r, Constraints::new(l.from, l.to, l.weight))),
            None => Arc::new(opw(r)),
        };
        let kinematics: Arc<dyn Kinematics> = if self.base.is_some() { Arc::new(Base { robot: opw, base: to_na(&base_iso) }) } else { opw };
        let body = RobotBody {
            joint_meshes: std::array::from_fn(|i| link_mesh[i].trimesh()),
            tool: tool_mesh.as_ref().map(|m| m.trimesh()),
            base: base_mesh.as_ref().map(|(m, p)| BaseBody { mesh: m.trimesh(), base_pose: iso_to_f32(p) }),
            collision_environment: env_bodies,
            safety: self.safety.build(),
        };
        let base_mesh = base_mesh.map(|(m, p)| (m, iso_from_f32(&iso_to_f32(&p))));
        // through a public constructor (the struct may have fields beyond the two public ones), then the public fields are set
        let dummy = || MeshSpec { lo: [-0.01; 3], hi: [0.01; 3], fan: 0 }.trimesh();
        let mut robot = KinematicsWithShape::with_safety(
            params(r),
            Constraints::new([-3.0; 6], [3.0; 6], 0.0),
            std::array::from_fn(|_| dummy()),
            dummy(),
            nalgebra::Isometry3::identity(),
            dummy(),
            nalgebra::Isometry3::identity(),
            Vec::new(),
            SafetyDistances::standard(CheckMode::FirstCollisionOnly),
        );
        robot.kinematics = kinematics;
        robot.body = body;
        Built { robot, link_mesh, tool_mesh, base_mesh, env_mesh, base_iso }
    }
}

#[derive(Clone, Debug, PartialEq)]
pub enum PairVerdict {
    Exempt,
    Collides,
    Free,
    Undecided,
}

pub struct PairInfo {
    pub a: usize,
    pub b: usize,
    pub dist: f64,
    pub limit: f32,
    pub verdict: PairVerdict,
    /// a file mesh (bundled STL) is involved and either the decision margin is below 5 mm or it is a touch-only decision on
    /// intersecting surfaces (see known finding C10-fine-mesh-f32)
    pub shallow: bool,
}

/// Body handle for the oracle.
#[derive(Clone, Copy, Debug, PartialEq)]
pub enum BodyId {
    Link(usize),
    Tool,
    Base,
    Env(usize),
}

impl BodyId {
    pub fn index(&self) -> usize {
        match self {
            BodyId::Link(i) => *i,
            BodyId::Tool => J_TOOL,
            BodyId::Base => J_BASE,
            BodyId::Env(k) => ENV_START_IDX + k,
        }
    }
}

/// Relevant pairs by the statement: links |i-j| >= 2; every link and the tool x every environment object;
/// tool x links 1-4; base x links 2-6; tool x base.
pub fn relevant_pairs(b: &Built) -> Vec<(BodyId, BodyId)> {
    let mut v = Vec::new();
    for i in 0..6 {
        for j in (i + 2)..6 {
            v.push((BodyId::Link(i), BodyId::Link(j)));
        }
    }
    for k in 0..b.env_mesh.len() {
        for i in 0..6 {
            v.push((BodyId::Link(i), BodyId::Env(k)));
        }
        if b.tool_mesh.is_some() {
            v.push((BodyId::Tool, BodyId::Env(k)));
        }
    }
    if b.tool_mesh.is_some() {
        for i in 0..4 {
            v.push((BodyId::Link(i), BodyId::Tool));
        }
    }
    if b.base_mesh.is_some() {
        for i in 1..6 {
            v.push((BodyId::Link(i), BodyId::Base));
        }
        if b.tool_mesh.is_some() {
            v.push((BodyId::Tool, BodyId::Base));
        }
    }
    v
}

pub struct Placed {
    pub tris: Vec<Tri>,
    pub mesh: Geom,
    pub pose: Iso,
}

pub fn place(scene: &Scene, b: &Built, j: &[f64; 6], id: BodyId) -> Placed {
    let poses = scene.link_poses(j);
    let (mesh, pose) = match id {
        BodyId::Link(i) => (b.link_mesh[i].clone(), poses[i]),
        BodyId::Tool => (b.tool_mesh.clone().unwrap(), poses[5]),
        BodyId::Base => {
            let (m, p) = b.base_mesh.clone().unwrap();
            (m, p)
        }
        BodyId::Env(k) => b.env_mesh[k].clone(),
    };
    Placed { tris: mesh.world_tris(&pose), mesh, pose }
}

/// Decide one pair at joints j under the given table. `g` is the guard band.
pub fn decide_pair(scene: &Scene, b: &Built, j: &[f64; 6], pair: (BodyId, BodyId), table: &SafetySpec, g: f64) -> PairInfo {
    let (ia, ib) = (pair.0.index(), pair.1.index());
    let limit = table.limit(ia, ib);
    let (lo, hi) = (ia.min(ib), ia.max(ib));
    if limit <= NEVER_COLLIDES {
        return PairInfo { a: lo, b: hi, dist: f64::NAN, limit, verdict: PairVerdict::Exempt, shallow: false };
    }
    let pa = place(scene, b, j, pair.0);
    let pb = place(scene, b, j, pair.1);
    // exact distance up to the largest value that can matter for the decision (beyond it: "far", reported as inf)
    let cutoff = (limit.max(0.0) as f64) + 2.0 * g + 1e-3;
    let d = mesh_dist_upto(&pa.tris, &pb.tris, cutoff);
    let inside = geom_contained(&pa.mesh, &pa.pose, &pa.tris, &pb.mesh, &pb.pose, &pb.tris);
    let verdict = if limit < 0.0 {
        PairVerdict::Undecided // (-1, 0): not a documented setting
    } else if limit == 0.0 {
        if d == 0.0 {
            // grazing contact? nudge one body by +-g along the axes
            let mut robust = true;
            'n: for axis in 0..3 {
                for s in [-1.0, 1.0] {
                    let mut sh = [0.0; 3];
                    sh[axis] = s * g;
                    let moved: Vec<Tri> = pb.tris.iter().map(|t| [add(&t[0], &sh), add(&t[1], &sh), add(&t[2], &sh)]).collect();
                    if mesh_dist_upto(&pa.tris, &moved, g) > 0.0 {
                        robust = false;
                        break 'n;
                    }
                }
            }
            if robust {
                PairVerdict::Collides
            } else {
                PairVerdict::Undecided
            }
        } else if d < g || inside {
            PairVerdict::Undecided
        } else {
            PairVerdict::Free
        }
    } else {
        let r = limit as f64;
        if inside && d > r - g {
            PairVerdict::Undecided
        } else if (d - r).abs() < g {
            PairVerdict::Undecided
        } else if d <= r {
            PairVerdict::Collides
        } else {
            PairVerdict::Free
        }
    };
    // decision margin for pairs that involve a file mesh
    let file_mesh = matches!(pa.mesh, Geom::Data(..)) || matches!(pb.mesh, Geom::Data(..));
    let shallow = file_mesh && {
        const M: f64 = 5e-3;
        if limit == 0.0 {
            if d == 0.0 {
                // intersecting file meshes in touch-only mode: the engine's triangle-triangle test misses genuine intersections of
                // thin, nearly parallel triangles (observed up to > 1 cm deep), so the whole class is covered by the finding
                true
            } else {
                d < M
            }
        } else {
            (d - limit as f64).abs() < M
        }
    };
    PairInfo { a: lo, b: hi, dist: d, limit, verdict, shallow }
}

// ---------------------------------------------------------------------------------------------
// generators

pub fn safety_strategy(n_env: usize, with_tool: bool, with_base: bool) -> BoxedStrategy<SafetySpec> {
    let mut ids: Vec<u16> = (0..6).collect();
    if with_tool {
        ids.push(J_TOOL as u16);
    }
    if with_base {
        ids.push(J_BASE as u16);
    }
    for k in 0..n_env {
        ids.push((ENV_START_IDX + k) as u16);
    }
    let n = ids.len();
    let value = prop_oneof![3 => Just(NEVER_COLLIDES), 1 => Just(0.0f32), 3 => 0.005..0.3f32];
    let pair = (any::<u16>(), any::<u16>(), value).prop_map(move |(a, b, v)| (ids[crate::engine::pick_idx(a, n)], ids[crate::engine::pick_idx(b, n)], v));
    (
        prop_oneof![2 => Just((0.0f32, 0.0f32)), 5 => (0.005..0.3f32, 0.005..0.3f32), 1 => (Just(0.0f32), 0.005..0.3f32)],
        prop::collection::vec(pair, 0..5),
        prop_oneof![2 => Just(0u8), 5 => Just(1u8), 1 => Just(2u8)],
    )
        .prop_map(|((to_environment, to_robot_default), special, mode)| {
            let special = special.into_iter().filter(|(a, b, _)| a != b).collect();
            SafetySpec { to_environment, to_robot_default, special, mode }
        })
        .boxed()
}

pub fn env_strategy() -> BoxedStrategy<EnvSpec> {
    (
        0u8..8,
        prop_oneof![2 => Just(-0.5), 2 => Just(0.3), 2 => Just(0.8), 2 => Just(1.25), 2 => Just(3.0), 2 => -1.0..4.0f64],
        prop::array::uniform3(0.02..0.4f32),
        0u8..6,
        prop_oneof![1 => Just(0.0), 1 => -3.0..3.0f64],
        0u8..2,
        crate::gen::iso_strategy(1.5),
    )
        .prop_map(|(attach, gap_factor, half, side, spin, fan, free_pose)| EnvSpec { attach, gap_factor, half, side, spin, fan, free_pose })
        .boxed()
}

pub fn scene_robot() -> BoxedStrategy<RobotSpec> {
    // well-formed arms of ordinary proportions (catalogue + realistic with positive main lengths)
    prop_oneof![2 => crate::gen::robot_catalogue(crate::gen::DofChoice::Six), 1 => crate::gen::robot_realistic(crate::gen::DofChoice::Six)].boxed()
}

pub fn scene_strategy(max_env: usize) -> BoxedStrategy<Scene> {
    (
        scene_robot(),
        prop::array::uniform6(0.02..0.08f32),
        prop::array::uniform6(0u8..2),
        prop_oneof![1 => Just(None), 2 => (0.05..0.4f32, 0.02..0.08f32, 0u8..2).prop_map(Some)],
        prop_oneof![1 => Just(None), 2 => (prop_oneof![Just(IsoSpec::identity()), crate::gen::iso_strategy(1.0)], prop::array::uniform2(0.1..0.5f32), 0.05..0.5f32, 0u8..2).prop_map(Some)],
        prop::collection::vec(env_strategy(), 0..=max_env),
    )
        .prop_flat_map(|(robot, link_r, link_fan, tool, base, env)| {
            let n_env = env.len();
            let (wt, wb) = (tool.is_some(), base.is_some());
            safety_strategy(n_env, wt, wb).prop_map(move |safety| Scene { robot, link_r, link_fan, tool, base: base.clone(), env: env.clone(), safety, limits: None, slim: false, rx160: false })
        })
        .boxed()
}
