//! Engine: drives proptest from the binary, collects statistics, shrinks, writes replay and evidence.

use proptest::strategy::{BoxedStrategy, Strategy};
use proptest::test_runner::{Config, RngAlgorithm, TestCaseError, TestError, TestRng, TestRunner};
use serde::de::DeserializeOwned;
use serde::Serialize;
use serde_json::{json, Value};
use std::cell::RefCell;
use std::collections::{BTreeMap, HashSet};
use std::fmt::Debug;
use std::hash::Hasher;
use std::io::Write;
use std::panic::{catch_unwind, AssertUnwindSafe};
use std::path::PathBuf;
use std::sync::atomic::{AtomicBool, AtomicU64, Ordering};
use std::sync::{Arc, Mutex};
use std::time::Instant;

#[derive(Clone, Copy, Debug, PartialEq, Eq)]
pub enum Tier {
    Quick,
    Thorough,
}

impl Tier {
    pub fn name(&self) -> &'static str {
        match self {
            Tier::Quick => "quick",
            Tier::Thorough => "thorough",
        }
    }
    pub fn pick<T>(&self, quick: T, thorough: T) -> T {
        match self {
            Tier::Quick => quick,
            Tier::Thorough => thorough,
        }
    }
}

#[derive(Clone, Debug)]
pub struct Violation {
    pub clause: String,
    pub detail: String,
}

impl Violation {
    pub fn new(clause: &str, detail: String) -> Violation {
        Violation { clause: clause.to_string(), detail }
    }
}

#[macro_export]
macro_rules! viol {
    ($clause:expr, $($arg:tt)*) => {
        $crate::engine::Violation { clause: $clause.to_string(), detail: format!($($arg)*) }
    };
}

#[macro_export]
macro_rules! ensure {
    ($cond:expr, $clause:expr, $($arg:tt)*) => {
        if !($cond) {
            return Err($crate::engine::Violation { clause: $clause.to_string(), detail: format!($($arg)*) });
        }
    };
}

pub type Res = Result<(), Violation>;

// ------------------------------------------------------------------------------------------
// Real stdout handling: the library prints a lot; fd 1 is pointed at /dev/null and the engine
// talks through a private duplicate of the original stdout.

static REAL_OUT: Mutex<Option<std::fs::File>> = Mutex::new(None);

pub fn silence_stdout() {
    use std::os::unix::io::FromRawFd;
    unsafe {
        let saved = libc::dup(1);
        let devnull = libc::open(b"/dev/null\0".as_ptr() as *const libc::c_char, libc::O_WRONLY);
        if saved >= 0 && devnull >= 0 {
            libc::dup2(devnull, 1);
            libc::close(devnull);
            *REAL_OUT.lock().unwrap() = Some(std::fs::File::from_raw_fd(saved));
        }
    }
}

pub fn out_line(s: &str) {
    let mut g = REAL_OUT.lock().unwrap();
    if let Some(f) = g.as_mut() {
        let _ = writeln!(f, "{}", s);
        let _ = f.flush();
    } else {
        drop(g);
        println!("{}", s);
    }
}

#[macro_export]
macro_rules! outln {
    ($($arg:tt)*) => { $crate::engine::out_line(&format!($($arg)*)) };
}

pub fn verif_root() -> PathBuf {
    if let Ok(r) = std::env::var("VERIF_ROOT") {
        return PathBuf::from(r);
    }
    let p = PathBuf::from(env!("CARGO_MANIFEST_DIR"));
    p.parent().map(|x| x.to_path_buf()).unwrap_or(p)
}

pub fn repo_root() -> PathBuf {
    PathBuf::from(std::env::var("VERIF_REPO").unwrap_or_else(|_| "/repo".to_string()))
}

// ------------------------------------------------------------------------------------------
// Known findings

#[derive(Clone, Debug)]
pub struct Finding {
    pub id: String,
    pub property: String,
    pub status: String,
    pub what: String,
}

#[derive(Clone, Debug, Default)]
pub struct KnownFindings {
    pub items: Vec<Finding>,
}

impl KnownFindings {
    pub fn load() -> KnownFindings {
        let path = verif_root().join("known_findings.json");
        let mut items = Vec::new();
        if let Ok(txt) = std::fs::read_to_string(&path) {
            if let Ok(v) = serde_json::from_str::<Value>(&txt) {
                if let Some(arr) = v.get("findings").and_then(|x| x.as_array()) {
                    for f in arr {
                        let g = |k: &str| f.get(k).and_then(|x| x.as_str()).unwrap_or("").to_string();
                        items.push(Finding { id: g("id"), property: g("property"), status: g("status"), what: g("what") });
                    }
                }
            }
        }
        KnownFindings { items }
    }
    pub fn is_open(&self, id: &str) -> bool {
        self.items.iter().any(|f| f.id == id && f.status == "open")
    }
    pub fn open_for(&self, property: &str) -> Vec<&Finding> {
        self.items.iter().filter(|f| f.property == property && f.status == "open").collect()
    }
}

// ------------------------------------------------------------------------------------------
// Per-worker statistics

pub struct Ctx {
    pub tier: Tier,
    pub evaluations: u64,
    pub classes: BTreeMap<String, u64>,
    pub excluded: BTreeMap<String, u64>,
    pub known_hits: BTreeMap<String, u64>,
    pub nontrivial: HashSet<u64>,
    /// distinct non-trivial cases of enumerated phases (distinct by construction, counted not hashed)
    pub distinct_extra: u64,
    pub samples: Vec<Value>,
    pub notes: BTreeMap<String, Value>,
    counting: bool,
    case_nontrivial: bool,
    known: Arc<KnownFindings>,
    /// strict = replay mode of a single case: known findings still only count (they are listed),
    pub replay: bool,
}

impl Ctx {
    pub fn new(tier: Tier, known: Arc<KnownFindings>) -> Ctx {
        Ctx {
            tier,
            evaluations: 0,
            classes: BTreeMap::new(),
            excluded: BTreeMap::new(),
            known_hits: BTreeMap::new(),
            nontrivial: HashSet::new(),
            distinct_extra: 0,
            samples: Vec::new(),
            notes: BTreeMap::new(),
            counting: true,
            case_nontrivial: false,
            known,
            replay: false,
        }
    }
    /// Count a generator / outcome class.
    pub fn class(&mut self, name: &str) {
        if self.counting {
            *self.classes.entry(name.to_string()).or_insert(0) += 1;
        }
    }
    pub fn class_n(&mut self, name: &str, n: u64) {
        if self.counting {
            *self.classes.entry(name.to_string()).or_insert(0) += n;
        }
    }
    /// Count a (sub)case that was excluded from an assertion, with the reason.
    pub fn exclude(&mut self, reason: &str) {
        if self.counting {
            *self.excluded.entry(reason.to_string()).or_insert(0) += 1;
        }
    }
    /// Mark the current case as non-trivial by the property's stated rule.
    pub fn nontrivial(&mut self) {
        self.case_nontrivial = true;
    }
    /// Directly add distinct non-trivial keys (for enumerated phases).
    pub fn nontrivial_key(&mut self, key: u64) {
        if self.counting {
            self.nontrivial.insert(key);
        }
    }
    /// A sub-assertion failed. If it matches the open known finding `finding_id`, count it and go on
    /// (the search continues behind the finding); otherwise it is a violation.
    pub fn known_or(&mut self, finding_id: &str, v: Violation) -> Res {
        if self.known.is_open(finding_id) {
            if self.counting {
                *self.known_hits.entry(finding_id.to_string()).or_insert(0) += 1;
            }
            Ok(())
        } else {
            Err(v)
        }
    }
    pub fn is_open(&self, finding_id: &str) -> bool {
        self.known.is_open(finding_id)
    }
    fn merge(&mut self, o: Ctx) {
        self.evaluations += o.evaluations;
        for (k, v) in o.classes {
            *self.classes.entry(k).or_insert(0) += v;
        }
        for (k, v) in o.excluded {
            *self.excluded.entry(k).or_insert(0) += v;
        }
        for (k, v) in o.known_hits {
            *self.known_hits.entry(k).or_insert(0) += v;
        }
        self.nontrivial.extend(o.nontrivial);
        self.distinct_extra += o.distinct_extra;
        for s in o.samples {
            if self.samples.len() < 6 {
                self.samples.push(s);
            }
        }
        for (k, v) in o.notes {
            self.notes.insert(k, v);
        }
    }
}

pub fn hash_bytes(b: &[u8]) -> u64 {
    // FNV-1a 64
    let mut h: u64 = 0xcbf29ce484222325;
    for &x in b {
        h ^= x as u64;
        h = h.wrapping_mul(0x100000001b3);
    }
    h
}

pub fn hash_of<T: std::hash::Hash>(t: &T) -> u64 {
    let mut h = std::collections::hash_map::DefaultHasher::new();
    t.hash(&mut h);
    h.finish()
}

// ------------------------------------------------------------------------------------------

pub struct Plan {
    pub workers: u32,
    pub cases_per_worker: u32,
    pub max_shrink_iters: u32,
}

pub trait Property: Send + Sync + 'static {
    type Case: Serialize + DeserializeOwned + Debug + Clone + Send + 'static;
    fn id(&self) -> &'static str;
    fn rule(&self) -> String;
    fn assumptions(&self) -> Vec<String>;
    fn plan(&self, tier: Tier) -> Plan;
    fn strategy(&self, tier: Tier) -> BoxedStrategy<Self::Case>;
    fn check(&self, case: &Self::Case, ctx: &mut Ctx) -> Res;
    /// Oracle self-test; returns a JSON summary recorded in the evidence.
    fn selftest(&self) -> Result<Value, String> {
        Ok(Value::Null)
    }
    /// Enumerated (non-random) phase. Returns the failing case, if any.
    fn enumerate(&self, _tier: Tier, _ctx: &mut Ctx) -> Result<(), (Self::Case, Violation)> {
        Ok(())
    }
    /// Optional extra phase run after the random phase on the merged statistics (e.g. fuzzing summary).
    fn extra_coverage(&self, _tier: Tier) -> Option<(String, Value)> {
        None
    }
}

/// Run `check` on one case with panics converted into violations.
pub fn guarded_check<P: Property>(p: &P, case: &P::Case, ctx: &mut Ctx) -> Res {
    let r = catch_unwind(AssertUnwindSafe(|| p.check(case, ctx)));
    match r {
        Ok(r) => r,
        Err(e) => {
            let msg = if let Some(s) = e.downcast_ref::<&str>() {
                s.to_string()
            } else if let Some(s) = e.downcast_ref::<String>() {
                s.clone()
            } else {
                "panic (non-string payload)".to_string()
            };
            Err(Violation { clause: "no-panic (uncaught panic inside the check)".into(), detail: msg })
        }
    }
}

/// Call a library function, converting a panic into Err(message).
pub fn no_panic<T>(f: impl FnOnce() -> T) -> Result<T, String> {
    match catch_unwind(AssertUnwindSafe(f)) {
        Ok(v) => Ok(v),
        Err(e) => Err(if let Some(s) = e.downcast_ref::<&str>() {
            s.to_string()
        } else if let Some(s) = e.downcast_ref::<String>() {
            s.clone()
        } else {
            "panic (non-string payload)".to_string()
        }),
    }
}

static STOP: AtomicBool = AtomicBool::new(false);
static WATCH: Mutex<Vec<Arc<AtomicU64>>> = Mutex::new(Vec::new());
static EPOCH: Mutex<Option<Instant>> = Mutex::new(None);

fn now_ms() -> u64 {
    let e = EPOCH.lock().unwrap().get_or_insert_with(Instant::now).clone();
    e.elapsed().as_millis() as u64 + 1
}

fn start_watchdog(limit_s: u64) {
    std::thread::spawn(move || loop {
        std::thread::sleep(std::time::Duration::from_millis(1000));
        let now = now_ms();
        let v = WATCH.lock().unwrap().clone();
        for a in v {
            let t = a.load(Ordering::Relaxed);
            if t != 0 && now > t && now - t > limit_s * 1000 {
                out_line(&format!("INCONCLUSIVE: a single case ran longer than {} s (watchdog); no verdict", limit_s));
                crate::props::c19::cleanup_tmp();
                std::process::exit(2);
            }
        }
    });
}

fn seed32(seed: u64, worker: u32, salt: &str) -> [u8; 32] {
    let mut s = [0u8; 32];
    s[..8].copy_from_slice(&seed.to_le_bytes());
    s[8..12].copy_from_slice(&worker.to_le_bytes());
    let h = hash_bytes(salt.as_bytes());
    s[12..20].copy_from_slice(&h.to_le_bytes());
    s[20..28].copy_from_slice(&(seed.wrapping_mul(0x9E3779B97F4A7C15) ^ (worker as u64) << 17).to_le_bytes());
    s
}

pub struct RunArgs {
    pub tier: Tier,
    pub seed: u64,
    pub evidence: PathBuf,
    pub scale: f64,
    /// summary written by fuzz/run_fuzz.sh (thorough tier of the fuzzed properties)
    pub fuzz_summary: Option<PathBuf>,
}

struct WorkerOutcome<C> {
    ctx: Ctx,
    failure: Option<(C, String)>,
    /// the first failing case as generated (before shrinking) with its violation
    first_failure: Option<(C, Violation)>,
}

fn run_worker<P: Property>(p: Arc<P>, tier: Tier, seed: u64, worker: u32, cases: u32, shrink: u32, known: Arc<KnownFindings>) -> WorkerOutcome<P::Case> {
    let config = Config {
        cases,
        failure_persistence: None,
        max_shrink_iters: shrink,
        max_local_rejects: 1_000_000,
        max_global_rejects: 10_000_000,
        verbose: 0,
        ..Config::default()
    };
    let rng = TestRng::from_seed(RngAlgorithm::ChaCha, &seed32(seed, worker, p.id()));
    let mut runner = TestRunner::new_with_rng(config, rng);
    let strategy = p.strategy(tier);
    let ctx = RefCell::new(Ctx::new(tier, known));
    let first_failure: RefCell<Option<(P::Case, Violation)>> = RefCell::new(None);
    let beat = Arc::new(AtomicU64::new(0));
    WATCH.lock().unwrap().push(beat.clone());
    let result = runner.run(&strategy, |case| {
        if STOP.load(Ordering::Relaxed) && ctx.borrow().counting {
            return Ok(());
        }
        beat.store(now_ms(), Ordering::Relaxed);
        let mut c = ctx.borrow_mut();
        c.case_nontrivial = false;
        if c.counting {
            c.evaluations += 1;
        }
        let r = guarded_check(&*p, &case, &mut c);
        beat.store(0, Ordering::Relaxed);
        match r {
            Ok(()) => {
                if c.counting && c.case_nontrivial {
                    let js = serde_json::to_vec(&case).unwrap_or_default();
                    let h = hash_bytes(&js);
                    if c.nontrivial.insert(h) && c.samples.len() < 3 && worker == 0 {
                        if let Ok(v) = serde_json::from_slice::<Value>(&js) {
                            c.samples.push(v);
                        }
                    }
                }
                Ok(())
            }
            Err(v) => {
                if first_failure.borrow().is_none() {
                    *first_failure.borrow_mut() = Some((case.clone(), v.clone()));
                }
                c.counting = false;
                STOP.store(true, Ordering::Relaxed);
                Err(TestCaseError::fail(format!("{}: {}", v.clause, v.detail)))
            }
        }
    });
    beat.store(0, Ordering::Relaxed);
    let failure = match result {
        Ok(()) => None,
        Err(TestError::Fail(reason, value)) => Some((value, reason.message().to_string())),
        Err(TestError::Abort(reason)) => {
            out_line(&format!("INCONCLUSIVE: proptest aborted: {}", reason.message()));
            std::process::exit(2);
        }
    };
    WorkerOutcome { ctx: ctx.into_inner(), failure, first_failure: first_failure.into_inner() }
}

pub fn write_replay<P: Property>(p: &P, args: &RunArgs, case: &P::Case, v: &Violation) -> PathBuf {
    let dir = std::env::var("VERIF_REPLAYS_DIR").map(PathBuf::from).unwrap_or_else(|_| verif_root().join("replays")).join(p.id());
    let _ = std::fs::create_dir_all(&dir);
    let case_json = serde_json::to_value(case).unwrap_or(Value::Null);
    let h = hash_bytes(serde_json::to_string(&case_json).unwrap_or_default().as_bytes());
    let path = dir.join(format!("{}-{:016x}.json", p.id(), h));
    let tree = std::process::Command::new("git")
        .args(["-C", repo_root().to_str().unwrap_or("/repo"), "rev-parse", "HEAD"])
        .output()
        .ok()
        .map(|o| String::from_utf8_lossy(&o.stdout).trim().to_string())
        .unwrap_or_default();
    let doc = json!({
        "property": p.id(),
        "tier": args.tier.name(),
        "seed": args.seed,
        "case": case_json,
        "violation": {"clause": v.clause, "detail": v.detail},
        "tree": tree,
    });
    let _ = std::fs::write(&path, serde_json::to_string_pretty(&doc).unwrap());
    path
}

fn write_evidence<P: Property>(p: &P, args: &RunArgs, ctx: &Ctx, selftest: &Value, wall: f64, violations: u32, extra: Option<(String, Value)>, exhaustive_part: bool) {
    let mut samples = ctx.samples.clone();
    if samples.is_empty() {
        samples.push(json!("no non-trivial case was generated in this run"));
    }
    let mut coverage = json!({
        "evaluations": ctx.evaluations,
        "distinct_nontrivial": ctx.nontrivial.len() as u64 + ctx.distinct_extra,
        "rule": p.rule(),
        "samples": samples,
        "classes": ctx.classes,
        "excluded": ctx.excluded,
        "known_finding_hits": ctx.known_hits,
        "oracle_selftest": selftest,
        "exhaustive": false,
        "enumerated_part_complete": exhaustive_part,
    });
    for (k, v) in &ctx.notes {
        coverage[k.as_str()] = v.clone();
    }
    if let Some((k, v)) = extra {
        coverage[k.as_str()] = v;
    }
    let doc = json!({
        "property_id": p.id(),
        "tier": args.tier.name(),
        "seed": args.seed,
        "level": "exploration",
        "coverage": coverage,
        "assumptions": p.assumptions(),
        "wall_s": wall,
        "violations": violations,
    });
    if let Some(parent) = args.evidence.parent() {
        let _ = std::fs::create_dir_all(parent);
    }
    let _ = std::fs::write(&args.evidence, serde_json::to_string_pretty(&doc).unwrap());
}

fn regress_files(id: &str) -> Vec<PathBuf> {
    let dir = verif_root().join("replays").join("regress").join(id);
    let mut v: Vec<PathBuf> = std::fs::read_dir(dir)
        .map(|rd| rd.filter_map(|e| e.ok()).map(|e| e.path()).filter(|p| p.extension().map(|e| e == "json").unwrap_or(false)).collect())
        .unwrap_or_default();
    v.sort();
    v
}

pub fn load_case<P: Property>(_p: &P, path: &std::path::Path) -> Result<P::Case, String> {
    let txt = std::fs::read_to_string(path).map_err(|e| format!("cannot read {}: {}", path.display(), e))?;
    let v: Value = serde_json::from_str(&txt).map_err(|e| format!("bad json {}: {}", path.display(), e))?;
    let c = v.get("case").cloned().unwrap_or(v);
    serde_json::from_value::<P::Case>(c).map_err(|e| format!("cannot decode case in {}: {}", path.display(), e))
}

/// Full run of one property. Returns the process exit code.
pub fn run_property<P: Property>(p: P, args: RunArgs) -> i32 {
    let started = Instant::now();
    let p = Arc::new(p);
    let known = Arc::new(KnownFindings::load());
    std::panic::set_hook(Box::new(|_| {}));
    start_watchdog(300);

    let selftest = match p.selftest() {
        Ok(v) => v,
        Err(e) => {
            out_line(&format!("INCONCLUSIVE: oracle self-test failed: {}", e));
            return 2;
        }
    };

    let mut total = Ctx::new(args.tier, known.clone());
    let mut failure: Option<(P::Case, Violation)> = None;

    // 1. committed regression replays (seconds-long replay tier)
    let mut regress_n = 0u64;
    let skip_regress = std::env::var("VERIF_NO_REGRESS").is_ok();
    for f in regress_files(p.id()).into_iter().filter(|_| !skip_regress) {
        match load_case(&*p, &f) {
            Ok(case) => {
                regress_n += 1;
                total.case_nontrivial = false;
                total.evaluations += 1;
                if let Err(v) = guarded_check(&*p, &case, &mut total) {
                    failure = Some((case, Violation { clause: format!("regression replay {}: {}", f.file_name().unwrap().to_string_lossy(), v.clause), detail: v.detail }));
                    break;
                }
            }
            Err(e) => {
                out_line(&format!("INCONCLUSIVE: {}", e));
                return 2;
            }
        }
    }
    total.notes.insert("regression_replays_run".into(), json!(regress_n));

    // 2. enumerated phase
    let mut enumerated_ok = false;
    if failure.is_none() {
        let beat = Arc::new(AtomicU64::new(0));
        match catch_unwind(AssertUnwindSafe(|| p.enumerate(args.tier, &mut total))) {
            Ok(Ok(())) => enumerated_ok = true,
            Ok(Err((case, v))) => failure = Some((case, v)),
            Err(_) => {
                out_line("INCONCLUSIVE: panic inside the enumerated phase of the harness");
                return 2;
            }
        }
        drop(beat);
    }

    // 3. random phase
    if failure.is_none() {
        let plan = p.plan(args.tier);
        let cases = ((plan.cases_per_worker as f64) * args.scale).ceil().max(1.0) as u32;
        let mut handles = Vec::new();
        for w in 0..plan.workers {
            let p2 = p.clone();
            let known2 = known.clone();
            let tier = args.tier;
            let seed = args.seed;
            let shrink = plan.max_shrink_iters;
            handles.push(
                std::thread::Builder::new()
                    .stack_size(64 << 20)
                    .spawn(move || run_worker(p2, tier, seed, w, cases, shrink, known2))
                    .unwrap(),
            );
        }
        for h in handles {
            match h.join() {
                Ok(o) => {
                    if let Some((case, _msg)) = o.failure {
                        if failure.is_none() {
                            // Re-derive the violation on the shrunk case, deterministically.
                            let mut c = Ctx::new(args.tier, known.clone());
                            c.counting = false;
                            match guarded_check(&*p, &case, &mut c) {
                                Err(v) => failure = Some((case, v)),
                                Ok(()) => {
                                    // schedule-dependent failure: the shrunk case passed on re-run; report the case as first generated
                                    match o.first_failure {
                                        Some((c0, v0)) => failure = Some((c0, Violation { clause: v0.clause, detail: format!("{} [schedule-dependent: the shrunk case passed when re-run; this is the case as first generated]", v0.detail) })),
                                        None => failure = Some((case, Violation { clause: "unstable".into(), detail: format!("shrunk case passed on re-run; original failure: {}", _msg) })),
                                    }
                                }
                            }
                        }
                    }
                    total.merge(o.ctx);
                }
                Err(_) => {
                    out_line("INCONCLUSIVE: worker thread panicked outside a check");
                    return 2;
                }
            }
        }
    }

    let mut extra = if failure.is_none() { p.extra_coverage(args.tier) } else { None };
    let mut fuzz_crash: Option<String> = None;
    if let Some(fs) = &args.fuzz_summary {
        if let Ok(txt) = std::fs::read_to_string(fs) {
            if let Ok(v) = serde_json::from_str::<Value>(&txt) {
                fuzz_crash = v.get("crash_artifact").and_then(|x| x.as_str()).map(|x| x.to_string());
                if let Some(n) = v.get("executions").and_then(|x| x.as_u64()) {
                    total.evaluations += n;
                }
                extra = Some(("fuzz".to_string(), v));
            }
        }
    }
    let wall = started.elapsed().as_secs_f64();
    let _ = std::panic::take_hook();

    // Known findings of this property are always listed.
    for f in known.open_for(p.id()) {
        let hits = total.known_hits.get(&f.id).cloned().unwrap_or(0);
        out_line(&format!("KNOWN-FINDING: property={} {} [{}] (hits this run: {})", p.id(), f.what, f.id, hits));
    }

    match failure {
        Some((case, v)) => {
            let path = write_replay(&*p, &args, &case, &v);
            write_evidence(&*p, &args, &total, &selftest, wall, 1, extra, enumerated_ok);
            out_line(&format!("violated clause: {}", v.clause));
            out_line(&format!("detail: {}", v.detail));
            out_line(&format!("VIOLATION property={} replay={}", p.id(), path.display()));
            1
        }
        None if fuzz_crash.is_some() => {
            let art = fuzz_crash.unwrap();
            write_evidence(&*p, &args, &total, &selftest, wall, 1, extra, enumerated_ok);
            out_line("violated clause: the coverage-guided fuzz target reported a violation (oracle inside the target); replay the artifact to see it");
            out_line(&format!("VIOLATION property={} replay={}", p.id(), art));
            1
        }
        None => {
            write_evidence(&*p, &args, &total, &selftest, wall, 0, extra, enumerated_ok);
            out_line(&format!(
                "OK property={} tier={} seed={} evaluations={} distinct_nontrivial={} wall_s={:.1}",
                p.id(),
                args.tier.name(),
                args.seed,
                total.evaluations,
                total.nontrivial.len() as u64 + total.distinct_extra,
                wall
            ));
            0
        }
    }
}

/// Replay one saved case, bypassing proptest.
pub fn replay_property<P: Property>(p: P, path: &std::path::Path) -> i32 {
    let known = Arc::new(KnownFindings::load());
    std::panic::set_hook(Box::new(|_| {}));
    let case = match load_case(&p, path) {
        Ok(c) => c,
        Err(e) => {
            out_line(&format!("INCONCLUSIVE: {}", e));
            return 2;
        }
    };
    let mut ctx = Ctx::new(Tier::Quick, known.clone());
    ctx.replay = true;
    let r = guarded_check(&p, &case, &mut ctx);
    let _ = std::panic::take_hook();
    for (k, n) in &ctx.known_hits {
        out_line(&format!("KNOWN-FINDING: property={} [{}] matched {} time(s) in this replay", p.id(), k, n));
    }
    match r {
        Ok(()) => {
            out_line(&format!("REPLAY-OK property={} file={}", p.id(), path.display()));
            0
        }
        Err(v) => {
            out_line(&format!("violated clause: {}", v.clause));
            out_line(&format!("detail: {}", v.detail));
            out_line(&format!("VIOLATION property={} replay={}", p.id(), path.display()));
            1
        }
    }
}

/// Helper: monotone index mapping for finite choices (shrinks towards index 0).
pub fn pick_idx(i: u16, n: usize) -> usize {
    ((i as usize) * n) >> 16
}

pub fn boxed<S: Strategy + 'static>(s: S) -> BoxedStrategy<S::Value> {
    s.boxed()
}
