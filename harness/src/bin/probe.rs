use nalgebra::{Matrix6, Vector6};
use opwv::gen::IsoSpec;
use opwv::glue::*;
use opwv::model::*;
use rs_opw_kinematics::jacobian::Jacobian;
use rs_opw_kinematics::tool::Base;
use std::sync::Arc;
fn main() {
    let r = RobotSpec { a1: 165.13510225488304, a2: -85.66038145806196, b: 250.52910811965705, c1: -880.0704880323516, c2: -460.8537791183473, c3: 455.21482194357213, c4: 0.18514284279706952, offsets: [0.0, 1.9705087921051039, -0.48637985824911334, -2.5782195924239644, 0.0, -0.5018228302095832], signs: [-1, -1, 1, -1, 1, 1], dof: 6 };
    let b = IsoSpec { t: [-1555.8483396763593, -1684.0918219039422, -693.5260552733864], axis: [0.7149601323859289, 0.9369515480897935, 0.12926632467375665], angle: 0.0 };
    let j = [-1.6675486615305324, 2.6487071759686978, 2.9029864467032582, -1.336028737196528, 0.9360068688951863, -2.090177236938669];
    let k = Base { robot: Arc::new(opw(&r)), base: to_na(&b.iso()) };
    let jac = Jacobian::new(&k, &j, 1e-5);
    let mut m = Matrix6::zeros();
    for row in 0..6 {
        let mut e = Vector6::zeros();
        e[row] = 1.0;
        let t = jac.torques_from_vector(&e);
        for col in 0..6 { m[(row, col)] = t[col]; }
    }
    let x = Vector6::from_column_slice(&[525.6581860769161, -1314.5418536165141, -1477.324153014561, -1.817620978104186, 1.2856496702289821, 1.8684733232918502]);
    let qd = jac.velocities_from_vector(&x).unwrap();
    let qv = Vector6::from_column_slice(&qd);
    let res = m * qv - x;
    println!("qd = {:?}", qd);
    println!("residual with the library's own matrix: {:?}", res);
    let svd = nalgebra::SVD::new(m, false, false);
    println!("singular values {:?}", svd.singular_values);
    let inv = m.try_inverse().unwrap();
    let q2 = inv * x;
    println!("explicit inverse: residual {:?}", m * q2 - x);
}
