// scratch probe: which pairs collide for plain box robots
use opwv::gen::IsoSpec;
use opwv::glue::*;
use opwv::scene::*;
use std::collections::BTreeMap;
fn main() {
    let mut hist: BTreeMap<String, u32> = BTreeMap::new();
    let mut state: u64 = 12345;
    let mut rnd = || { state = state.wrapping_mul(6364136223846793005).wrapping_add(1442695040888963407); ((state >> 11) as f64) / ((1u64 << 53) as f64) };
    let mut n = 0;
    for (name, robot) in catalogue() {
        let scene = Scene { robot, link_r: [0.03; 6], link_fan: [0; 6], tool: Some((0.2, 0.03, 0)), base: Some((IsoSpec::identity(), [0.2, 0.2], 0.3, 0)), env: vec![], safety: SafetySpec::touch(1), limits: None, slim: true };
        for _ in 0..200 {
            let j: [f64; 6] = std::array::from_fn(|_| (rnd() * 2.0 - 1.0) * 3.14);
            let b = scene.build(&j);
            let det = b.robot.collision_details(&j);
            n += 1;
            for p in det { *hist.entry(format!("{} {}", name, opwv::props::c10::pair_name(&p))).or_insert(0) += 1; }
        }
    }
    println!("{} postures", n);
    let mut agg: BTreeMap<String, u32> = BTreeMap::new();
    for (k, v) in &hist { *agg.entry(k.split(' ').nth(1).unwrap().to_string()).or_insert(0) += v; }
    for (k, v) in agg { println!("{:12} {}", k, v); }
}
