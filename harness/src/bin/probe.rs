// scratch experiment: wrist folded back (q5 = pi) continuation
use rs_opw_kinematics::kinematic_traits::Kinematics;
use rs_opw_kinematics::kinematics_impl::OPWKinematics;
use rs_opw_kinematics::parameters::opw_kinematics::Parameters;
fn main() {
    for (name, p) in [("custom", Parameters { a1: 0.15, a2: 0.0, b: 0.0, c1: 0.55, c2: 0.625, c3: 0.625, c4: 0.11, offsets: [0.0; 6], sign_corrections: [1; 6], dof: 6 }), ("irb2400", Parameters::irb2400_10()), ("tx2_160l", Parameters::staubli_tx2_160l()), ("kr6", Parameters::kuka_kr6_r700_sixx())] {
    println!("== {}", name);
    let k = OPWKinematics::new(p);
    for q5 in [0.0, std::f64::consts::PI, -std::f64::consts::PI] {
        for (j4, j6) in [(0.0, 0.0), (0.4, 0.3), (-1.0, 2.0)] {
            let q = [0.2, 0.1, 1.2, j4, q5, j6];
            let pose = k.forward(&q);
            let mut prev = q;
            prev[5] -= 0.5;
            let plain = k.inverse(&pose);
            let cont = k.inverse_continuing(&pose, &prev);
            let on = |s: &[f64; 6]| (0..3).all(|t| (s[t] - q[t]).abs() < 1e-4);
            println!("q5={:.3} j4={} j6={}: plain {} (on-branch {}), continuing {} (on-branch {}), singular={:?}", q5, j4, j6, plain.len(), plain.iter().filter(|s| on(s)).count(), cont.len(), cont.iter().filter(|s| on(s)).count(), k.kinematic_singularity(&q));
            for s in cont.iter().filter(|s| on(s)) {
                println!("    {:?}", s);
            }
        }
    }
    }
}
