// scratch probe for C12
use opwv::glue::*;
use opwv::props::c12::*;
use rs_opw_kinematics::cartesian::*;
use rs_opw_kinematics::kinematic_traits::Kinematics;
use rs_opw_kinematics::rrt::RRTPlanner;
fn main() {
    let f = std::env::args().nth(1).unwrap();
    let v: serde_json::Value = serde_json::from_str(&std::fs::read_to_string(f).unwrap()).unwrap();
    let c: Case = serde_json::from_value(v["case"].clone()).unwrap();
    let (s, k) = setup_free(&c).unwrap();
    println!("attempt {} start {:?}", k, s.start);
    let robot = &s.built.robot;
    let land = to_na(&s.poses[0]);
    let sols = robot.inverse_continuing(&land, &s.start);
    for x in &sols { println!("landing solution {:?} compliant {}", x, robot.constraints().as_ref().unwrap().compliant(x)); }
    let n = s.poses.len();
    let park = to_na(&s.poses[n - 1]);
    let strokes: Vec<_> = s.poses[1..n - 1].iter().map(to_na).collect();
    let planner = Cartesian { robot, check_step_m: c.check_step_m, check_step_rad: c.check_step_deg.to_radians(), max_transition_cost: c.max_cost_deg.to_radians(),
        transition_coefficients: c.coeffs.unwrap_or(DEFAULT_TRANSITION_COSTS), linear_recursion_depth: c.depth as usize,
        rrt: RRTPlanner { step_size_joint_space: c.rrt_step_deg.to_radians(), max_try: c.rrt_max_try as usize, debug: false }, include_linear_interpolation: c.include, debug: false };
    let r = planner.plan(&s.start, &land, strokes, &park);
    match r { Ok(p) => for (i, w) in p.iter().enumerate() { eprintln!("{} {:?}", i, w); }, Err(e) => eprintln!("ERR {}", e) }
}
