//! Scratch binary used during development for one-off numerical experiments against the library (not part of any check).
fn main() {
    println!("opwv probe: scratch binary, nothing to do");
}
