// scratch probe: cargo run --release --bin probe -- <C05 continuity replay>
use opwv::gen::wrist_joints;
use opwv::glue::*;
use opwv::model::*;
use rs_opw_kinematics::kinematic_traits::Kinematics;
fn main() {
    let f = std::env::args().nth(1).unwrap();
    let v: serde_json::Value = serde_json::from_str(&std::fs::read_to_string(f).unwrap()).unwrap();
    let c = &v["case"]["Continuity"];
    let r: RobotSpec = serde_json::from_value(c["robot"].clone()).unwrap();
    let j: [f64; 6] = serde_json::from_value(c["j"].clone()).unwrap();
    let k = opw(&r);
    let q = wrist_joints(&r, &j, 0, 0.0);
    let mut prev = q; prev[3] += c["d4"].as_f64().unwrap(); prev[5] += c["d6"].as_f64().unwrap();
    println!("q={:?}\nprev={:?}", q, prev);
    let pose = to_na(&r.fk(&q));
    println!("inverse:");
    for s in k.inverse(&pose) { println!("  {:?} sing={:?}", s, k.kinematic_singularity(&s)); }
    for d in [[1.25e-7,0.,0.],[0.,1.25e-7,0.],[0.,0.,1.25e-7]] {
        let mut sp = pose; sp.translation.vector.x += d[0]; sp.translation.vector.y += d[1]; sp.translation.vector.z += d[2];
        println!("shift {:?}", d);
        for s in k.inverse(&sp) { println!("  {:?} sing={:?} fkerr={:e} {:e}", s, k.kinematic_singularity(&s), (k.forward(&s).translation.vector-pose.translation.vector).norm(), k.forward(&s).rotation.angle_to(&pose.rotation)); }
    }
    println!("continuing:");
    for s in k.inverse_continuing(&pose, &prev) { println!("  {:?}", s); }
}
