// scratch probe: RX160 J4-J6 touch-mode disagreement
use opwv::mesh::*;
use opwv::model::*;
use opwv::scene::*;
fn main() {
    let rx = rx160_meshes().unwrap();
    let r = rx160_spec();
    let j5: f64 = std::env::args().nth(1).map(|s| s.parse().unwrap()).unwrap_or(-2.560412439804398);
    let j = [0.0, 0.0, 0.0, 0.0, j5, 0.0];
    let links = r.links(&j);
    let (g4, g6) = (&rx.links[3], &rx.links[5]);
    let (t4, t6) = (g4.world_tris(&links[3]), g6.world_tris(&links[5]));
    println!("oracle dist upto 0.01: {}", mesh_dist_upto(&t4, &t6, 0.01));
    // find intersecting pairs
    let mut n = 0;
    let mut shown = 0;
    for a in &t4 { for b in &t6 { if tri_tri_dist(a, b) == 0.0 { n += 1; if shown < 3 { shown += 1; println!("pair {:?}\n     {:?}", a, b);
        let ta = parry3d::shape::Triangle::new(nalgebra::Point3::new(a[0][0] as f32,a[0][1] as f32,a[0][2] as f32), nalgebra::Point3::new(a[1][0] as f32,a[1][1] as f32,a[1][2] as f32), nalgebra::Point3::new(a[2][0] as f32,a[2][1] as f32,a[2][2] as f32));
        let tb = parry3d::shape::Triangle::new(nalgebra::Point3::new(b[0][0] as f32,b[0][1] as f32,b[0][2] as f32), nalgebra::Point3::new(b[1][0] as f32,b[1][1] as f32,b[1][2] as f32), nalgebra::Point3::new(b[2][0] as f32,b[2][1] as f32,b[2][2] as f32));
        let id = nalgebra::Isometry3::identity();
        println!("   parry tri-tri intersect {:?} dist {:?}", parry3d::query::intersection_test(&id, &ta, &id, &tb), parry3d::query::distance(&id, &ta, &id, &tb));
    } } } }
    println!("intersecting triangle pairs: {}", n);
    for h in [1e-4, 2e-4, 5e-4, 1e-3, 2e-3, 3e-3, 5e-3, 1e-2] {
        let mut sep = false;
        for axis in 0..3 { for sg in [-1.0, 1.0] {
            let mut sh = [0.0; 3]; sh[axis] = sg * h;
            let moved: Vec<Tri> = t6.iter().map(|t| [add(&t[0], &sh), add(&t[1], &sh), add(&t[2], &sh)]).collect();
            if mesh_dist_upto(&t4, &moved, 1e-3) > 0.0 { sep = true; }
        } }
        println!("nudge {:e}: separable {}", h, sep);
    }
    let p4 = iso_to_f32(&links[3]); let p6 = iso_to_f32(&links[5]);
    let (m4, m6) = (g4.trimesh(), g6.trimesh());
    println!("parry intersection_test: {:?}", parry3d::query::intersection_test(&p4, &m4, &p6, &m6));
    println!("parry intersection_test swapped: {:?}", parry3d::query::intersection_test(&p6, &m6, &p4, &m4));
    println!("parry distance: {:?}", parry3d::query::distance(&p4, &m4, &p6, &m6));
}
#[allow(dead_code)]
fn depth() {}
