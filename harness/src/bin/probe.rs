use opwv::glue::*;
use opwv::model::*;
use rs_opw_kinematics::kinematic_traits::Kinematics;
fn main() {
    let r = RobotSpec { a1: 0.15, a2: 0.0, b: 0.0, c1: 0.55, c2: 0.625, c3: 0.625, c4: 0.11, offsets: [0.0; 6], signs: [1; 6], dof: 6 };
    let k = opw(&r);
    let j = [0.0, -1.9602654745447579, 1.5707963267948966, 0.0, 1.5707963267948966, 3.141592653589793];
    let pose = to_na(&r.fk(&j));
    let a = k.inverse(&pose);
    println!("answers for q: {}", a.len());
    for s in &a { println!("  {:?}", s); }
    let s0 = [3.141592653589793, -0.0670892978490546, 2.1072696041718397, -1.4191867617311956e-15, 3.0616778218117666, -1.4906226026301276e-15];
    let b = k.inverse(&to_na(&r.fk(&s0)));
    println!("answers for pose of answer: {}", b.len());
    for s in &b { println!("  {:?}", s); }
    // library forward of the pose, too
    let b2 = k.inverse(&k.forward(&s0));
    println!("via library forward: {}", b2.len());
}
