#![allow(dead_code)]
pub mod arc;
pub mod engine;
pub mod fuzzdec;
pub mod gen;
pub mod glue;
pub mod mesh;
pub mod scene;
pub mod model;
pub mod props;
pub mod selftest;
pub mod stack;
