//! Wrapper stacks (Tool / Base / Frame / Parallelogram) built on the library side, and the
//! hand-composed oracle for the same stack on the model side.

use crate::gen::IsoSpec;
use crate::glue::to_na;
use crate::model::*;
use proptest::prelude::*;
use rs_opw_kinematics::frame::Frame;
use rs_opw_kinematics::kinematic_traits::Kinematics;
use rs_opw_kinematics::parallelogram::Parallelogram;
use rs_opw_kinematics::tool::{Base, Tool};
use serde::{Deserialize, Serialize};
use std::sync::Arc;

#[derive(Clone, Copy, Debug, PartialEq, Serialize, Deserialize)]
pub enum Layer {
    Tool(IsoSpec),
    Base(IsoSpec),
    Frame(IsoSpec),
    Para { driven: u8, coupled: u8, scaling: f64 },
}

impl Layer {
    pub fn name(&self) -> &'static str {
        match self {
            Layer::Tool(_) => "Tool",
            Layer::Base(_) => "Base",
            Layer::Frame(_) => "Frame",
            Layer::Para { .. } => "Parallelogram",
        }
    }
}

/// layers[0] is the innermost wrapper, the last one the outermost.
pub fn build_stack(inner: Arc<dyn Kinematics>, layers: &[Layer]) -> Arc<dyn Kinematics> {
    let mut k = inner;
    for l in layers {
        k = match l {
            Layer::Tool(t) => Arc::new(Tool { robot: k, tool: to_na(&t.iso()) }),
            Layer::Base(b) => Arc::new(Base { robot: k, base: to_na(&b.iso()) }),
            Layer::Frame(f) => Arc::new(Frame { robot: k, frame: to_na(&f.iso()) }),
            Layer::Para { driven, coupled, scaling } => Arc::new(Parallelogram { robot: k, scaling: *scaling, driven: *driven as usize, coupled: *coupled as usize }),
        };
    }
    k
}

/// Joint vector seen by the innermost robot: parallelogram layers applied from the outermost inwards.
pub fn inner_joints(layers: &[Layer], j: &[f64; 6]) -> [f64; 6] {
    let mut q = *j;
    for l in layers.iter().rev() {
        if let Layer::Para { driven, coupled, scaling } = l {
            q[*coupled as usize] -= scaling * q[*driven as usize];
        }
    }
    q
}

/// Undo the couplings on an answer of the stack (what the wrapped solver produced).
pub fn decouple(layers: &[Layer], s: &[f64; 6]) -> [f64; 6] {
    inner_joints(layers, s)
}

/// Hand-composed forward of the stack around the model FK.
pub fn model_forward(r: &RobotSpec, layers: &[Layer], j: &[f64; 6]) -> Iso {
    let q = inner_joints(layers, j);
    let mut x = r.fk(&q);
    for l in layers {
        x = match l {
            Layer::Tool(t) => x.mul(&t.iso()),
            Layer::Frame(f) => x.mul(&f.iso()),
            Layer::Base(b) => b.iso().mul(&x),
            Layer::Para { .. } => x,
        };
    }
    x
}

/// Hand-composed link poses: Tool leaves all six unchanged, Base pre-multiplies all six, Frame changes only the last.
pub fn model_links(r: &RobotSpec, layers: &[Layer], j: &[f64; 6]) -> [Iso; 6] {
    let q = inner_joints(layers, j);
    let mut x = r.links(&q);
    for l in layers {
        match l {
            Layer::Tool(_) | Layer::Para { .. } => {}
            Layer::Frame(f) => x[5] = x[5].mul(&f.iso()),
            Layer::Base(b) => {
                for i in 0..6 {
                    x[i] = b.iso().mul(&x[i]);
                }
            }
        }
    }
    x
}

/// Requested pose of the innermost robot's flange for a stack request (inverse of the composition).
pub fn flange_request(layers: &[Layer], tcp: &Iso) -> Iso {
    let mut x = *tcp;
    for l in layers.iter().rev() {
        x = match l {
            Layer::Tool(t) => x.mul(&t.iso().inv()),
            Layer::Frame(f) => x.mul(&f.iso().inv()),
            Layer::Base(b) => b.iso().inv().mul(&x),
            Layer::Para { .. } => x,
        };
    }
    x
}

pub fn size_of(layers: &[Layer]) -> f64 {
    layers
        .iter()
        .map(|l| match l {
            Layer::Tool(t) | Layer::Base(t) | Layer::Frame(t) => norm(&t.t),
            _ => 0.0,
        })
        .sum()
}

/// Lever arm behind the flange: an orientation error d of the flange moves the tool point by up to lever*d.
pub fn tool_lever(layers: &[Layer]) -> f64 {
    layers
        .iter()
        .map(|l| match l {
            Layer::Tool(t) | Layer::Frame(t) => norm(&t.t),
            _ => 0.0,
        })
        .sum()
}

/// Position tolerance for an inverse answer mapped back through the stack: the solver's 1 um at the flange,
/// its 1 urad amplified by the tool lever, plus float slack.
pub fn back_tol_p(size: f64, layers: &[Layer]) -> f64 {
    1e-6 + 1e-6 * tool_lever(layers) + 1e-9 * (1.0 + size)
}

pub fn para_strategy() -> BoxedStrategy<Layer> {
    (0u8..6, 0u8..5, prop_oneof![2 => Just(1.0), 1 => Just(0.0), 1 => Just(-1.0), 4 => -2.0..2.0f64])
        .prop_map(|(driven, c, scaling)| {
            let coupled = if c >= driven { c + 1 } else { c };
            Layer::Para { driven, coupled, scaling }
        })
        .boxed()
}

pub fn tbf_layer(tmax: f64) -> BoxedStrategy<Layer> {
    (0u8..3, crate::gen::iso_strategy(tmax))
        .prop_map(|(k, iso)| match k {
            0 => Layer::Tool(iso),
            1 => Layer::Base(iso),
            _ => Layer::Frame(iso),
        })
        .boxed()
}

/// Tool/Frame axial, Base arbitrary: stacks under which the 5-DOF clauses are meaningful.
pub fn axial_layer(tmax: f64) -> BoxedStrategy<Layer> {
    prop_oneof![
        2 => crate::gen::iso_axial(tmax).prop_map(Layer::Tool),
        1 => crate::gen::iso_axial(tmax).prop_map(Layer::Frame),
        2 => crate::gen::iso_strategy(tmax).prop_map(Layer::Base),
    ]
    .boxed()
}

pub fn any_layer(tmax: f64) -> BoxedStrategy<Layer> {
    prop_oneof![3 => tbf_layer(tmax), 1 => para_strategy()].boxed()
}

pub fn stack_name(layers: &[Layer]) -> String {
    if layers.is_empty() {
        "bare".to_string()
    } else {
        layers.iter().rev().map(|l| l.name()).collect::<Vec<_>>().join("<")
    }
}
