//! Oracle A: arc membership modulo 2*pi, with a guard band around the arc ends.

use crate::model::{TWO_PI};

#[derive(Clone, Copy, Debug, PartialEq, Eq)]
pub enum Verdict {
    In,
    Out,
    Undecided,
}

/// from==to -> all; from<to: span=to-from, >=2pi -> all; from>to: span=(to-from) mod 2pi;
/// accept iff ((x-from) mod 2pi) <= span. Within `guard` of either arc end: Undecided.
/// from>to with from == to (mod 2pi) has no defined width: Undecided.
pub fn arc_member(from: f64, to: f64, x: f64, guard: f64) -> Verdict {
    if from == to {
        return Verdict::In;
    }
    let span;
    if from < to {
        span = to - from;
        if span >= TWO_PI + guard {
            return Verdict::In;
        }
        if span >= TWO_PI - guard {
            // full turn within rounding: everything is accepted except possibly the seam
            let d = (x - from).rem_euclid(TWO_PI);
            if d < guard || d > TWO_PI - guard {
                return Verdict::Undecided;
            }
            return Verdict::In;
        }
    } else {
        span = (to - from).rem_euclid(TWO_PI);
        if span < guard || span > TWO_PI - guard {
            return Verdict::Undecided;
        }
    }
    let d = (x - from).rem_euclid(TWO_PI);
    if d < guard || d > TWO_PI - guard || (d - span).abs() < guard {
        return Verdict::Undecided;
    }
    if d <= span {
        Verdict::In
    } else {
        Verdict::Out
    }
}

/// All six joints: In if all In, Out if some joint is decidedly Out, else Undecided.
pub fn arc_member6(from: &[f64; 6], to: &[f64; 6], x: &[f64; 6], guard: f64) -> Verdict {
    let mut undecided = false;
    for k in 0..6 {
        match arc_member(from[k], to[k], x[k], guard) {
            Verdict::Out => return Verdict::Out,
            Verdict::Undecided => undecided = true,
            Verdict::In => {}
        }
    }
    if undecided {
        Verdict::Undecided
    } else {
        Verdict::In
    }
}

/// Exact integer-degree decision (boundaries included).
pub fn arc_member_deg(from: i64, to: i64, x: i64) -> bool {
    if from == to {
        return true;
    }
    let span = if from < to {
        let s = to - from;
        if s >= 360 {
            return true;
        }
        s
    } else {
        (to - from).rem_euclid(360)
    };
    (x - from).rem_euclid(360) <= span
}
