//! Oracle D: brute-force distance between two placed triangle meshes, in f64, no parry call.
//! min over all triangle pairs of the exact triangle-triangle distance (9 segment-segment,
//! 6 point-triangle, segment-triangle piercing => 0). Surface semantics (like parry's TriMesh).

use crate::model::*;
use serde::{Deserialize, Serialize};

pub type Tri = [V3; 3];

fn clamp01(x: f64) -> f64 {
    if x < 0.0 {
        0.0
    } else if x > 1.0 {
        1.0
    } else {
        x
    }
}

/// Squared distance between segments p1q1 and p2q2 (Ericson, Real-Time Collision Detection 5.1.9).
pub fn seg_seg_d2(p1: &V3, q1: &V3, p2: &V3, q2: &V3) -> f64 {
    let d1 = sub(q1, p1);
    let d2 = sub(q2, p2);
    let r = sub(p1, p2);
    let a = dot(&d1, &d1);
    let e = dot(&d2, &d2);
    let f = dot(&d2, &r);
    let eps = 1e-300;
    let (s, t);
    if a <= eps && e <= eps {
        return dot(&r, &r);
    }
    if a <= eps {
        s = 0.0;
        t = clamp01(f / e);
    } else {
        let c = dot(&d1, &r);
        if e <= eps {
            t = 0.0;
            s = clamp01(-c / a);
        } else {
            let b = dot(&d1, &d2);
            let denom = a * e - b * b;
            let mut ss = if denom > 1e-30 * a * e { clamp01((b * f - c * e) / denom) } else { 0.0 };
            let mut tt = (b * ss + f) / e;
            if tt < 0.0 {
                tt = 0.0;
                ss = clamp01(-c / a);
            } else if tt > 1.0 {
                tt = 1.0;
                ss = clamp01((b - c) / a);
            }
            s = ss;
            t = tt;
        }
    }
    let c1 = add(p1, &scale(&d1, s));
    let c2 = add(p2, &scale(&d2, t));
    let d = sub(&c1, &c2);
    dot(&d, &d)
}

/// Squared distance from point p to triangle abc (Ericson 5.1.5).
pub fn pt_tri_d2(p: &V3, a: &V3, b: &V3, c: &V3) -> f64 {
    let ab = sub(b, a);
    let ac = sub(c, a);
    let ap = sub(p, a);
    let d1 = dot(&ab, &ap);
    let d2 = dot(&ac, &ap);
    let closest: V3;
    if d1 <= 0.0 && d2 <= 0.0 {
        closest = *a;
    } else {
        let bp = sub(p, b);
        let d3 = dot(&ab, &bp);
        let d4 = dot(&ac, &bp);
        if d3 >= 0.0 && d4 <= d3 {
            closest = *b;
        } else {
            let vc = d1 * d4 - d3 * d2;
            if vc <= 0.0 && d1 >= 0.0 && d3 <= 0.0 {
                let v = d1 / (d1 - d3);
                closest = add(a, &scale(&ab, v));
            } else {
                let cp = sub(p, c);
                let d5 = dot(&ab, &cp);
                let d6 = dot(&ac, &cp);
                if d6 >= 0.0 && d5 <= d6 {
                    closest = *c;
                } else {
                    let vb = d5 * d2 - d1 * d6;
                    if vb <= 0.0 && d2 >= 0.0 && d6 <= 0.0 {
                        let w = d2 / (d2 - d6);
                        closest = add(a, &scale(&ac, w));
                    } else {
                        let va = d3 * d6 - d5 * d4;
                        if va <= 0.0 && (d4 - d3) >= 0.0 && (d5 - d6) >= 0.0 {
                            let w = (d4 - d3) / ((d4 - d3) + (d5 - d6));
                            closest = add(b, &scale(&sub(c, b), w));
                        } else {
                            let denom = 1.0 / (va + vb + vc);
                            let v = vb * denom;
                            let w = vc * denom;
                            closest = add(a, &add(&scale(&ab, v), &scale(&ac, w)));
                        }
                    }
                }
            }
        }
    }
    let d = sub(p, &closest);
    dot(&d, &d)
}

/// Does the segment pq pierce triangle abc (proper or touching intersection, non-coplanar case)?
pub fn seg_pierces_tri(p: &V3, q: &V3, a: &V3, b: &V3, c: &V3) -> bool {
    let ab = sub(b, a);
    let ac = sub(c, a);
    let n = cross(&ab, &ac);
    let dp = dot(&n, &sub(p, a));
    let dq = dot(&n, &sub(q, a));
    if (dp > 0.0 && dq > 0.0) || (dp < 0.0 && dq < 0.0) {
        return false;
    }
    if dp == dq {
        return false; // parallel / coplanar: handled by the edge-edge and vertex-face distances
    }
    let t = dp / (dp - dq);
    let x = add(p, &scale(&sub(q, p), t));
    // inside test via barycentric signs
    let c0 = cross(&sub(b, a), &sub(&x, a));
    let c1 = cross(&sub(c, b), &sub(&x, b));
    let c2 = cross(&sub(a, c), &sub(&x, c));
    dot(&n, &c0) >= 0.0 && dot(&n, &c1) >= 0.0 && dot(&n, &c2) >= 0.0
}

pub fn tri_tri_dist(t1: &Tri, t2: &Tri) -> f64 {
    for i in 0..3 {
        if seg_pierces_tri(&t1[i], &t1[(i + 1) % 3], &t2[0], &t2[1], &t2[2]) {
            return 0.0;
        }
        if seg_pierces_tri(&t2[i], &t2[(i + 1) % 3], &t1[0], &t1[1], &t1[2]) {
            return 0.0;
        }
    }
    let mut d2 = f64::INFINITY;
    for i in 0..3 {
        for j in 0..3 {
            d2 = d2.min(seg_seg_d2(&t1[i], &t1[(i + 1) % 3], &t2[j], &t2[(j + 1) % 3]));
        }
        d2 = d2.min(pt_tri_d2(&t1[i], &t2[0], &t2[1], &t2[2]));
        d2 = d2.min(pt_tri_d2(&t2[i], &t1[0], &t1[1], &t1[2]));
    }
    d2.sqrt()
}

/// A mesh in its local frame (f32 vertex values, as handed to parry) plus triangle indices.
#[derive(Clone, Debug, PartialEq, Serialize, Deserialize)]
pub struct MeshSpec {
    pub lo: [f32; 3],
    pub hi: [f32; 3],
    /// extra vertices: each face gets `fan` centre vertices (0: plain 8-vertex box with 12 triangles; 1: every face split into 4 triangles around its centre, 14 vertices, 24 triangles)
    pub fan: u8,
}

impl MeshSpec {
    pub fn vertices_indices(&self) -> (Vec<[f32; 3]>, Vec<[u32; 3]>) {
        let (l, h) = (self.lo, self.hi);
        let mut v = vec![
            [l[0], l[1], l[2]],
            [h[0], l[1], l[2]],
            [l[0], h[1], l[2]],
            [h[0], h[1], l[2]],
            [l[0], l[1], h[2]],
            [h[0], l[1], h[2]],
            [l[0], h[1], h[2]],
            [h[0], h[1], h[2]],
        ];
        // faces as quads (a, b, c, d) in cyclic order
        let quads: [[u32; 4]; 6] = [[0, 1, 3, 2], [4, 5, 7, 6], [0, 1, 5, 4], [2, 3, 7, 6], [0, 2, 6, 4], [1, 3, 7, 5]];
        let mut idx = Vec::new();
        for q in quads.iter() {
            if self.fan == 0 {
                idx.push([q[0], q[1], q[2]]);
                idx.push([q[0], q[2], q[3]]);
            } else {
                let c = [
                    (v[q[0] as usize][0] + v[q[2] as usize][0]) * 0.5,
                    (v[q[0] as usize][1] + v[q[2] as usize][1]) * 0.5,
                    (v[q[0] as usize][2] + v[q[2] as usize][2]) * 0.5,
                ];
                let ci = v.len() as u32;
                v.push(c);
                for k in 0..4 {
                    idx.push([q[k], q[(k + 1) % 4], ci]);
                }
            }
        }
        (v, idx)
    }
    pub fn trimesh(&self) -> parry3d::shape::TriMesh {
        let (v, i) = self.vertices_indices();
        parry3d::shape::TriMesh::new(v.iter().map(|p| nalgebra::Point3::new(p[0], p[1], p[2])).collect(), i).expect("box mesh")
    }
    /// triangles in world coordinates (f64), placed by `pose`
    pub fn world_tris(&self, pose: &Iso) -> Vec<Tri> {
        let (v, idx) = self.vertices_indices();
        let w: Vec<V3> = v.iter().map(|p| pose.apply(&[p[0] as f64, p[1] as f64, p[2] as f64])).collect();
        idx.iter().map(|t| [w[t[0] as usize], w[t[1] as usize], w[t[2] as usize]]).collect()
    }
    pub fn world_vertices(&self, pose: &Iso) -> Vec<V3> {
        let (v, _) = self.vertices_indices();
        v.iter().map(|p| pose.apply(&[p[0] as f64, p[1] as f64, p[2] as f64])).collect()
    }
    /// is the world point inside the (solid) box placed by `pose`, with margin m?
    pub fn contains_world(&self, pose: &Iso, p: &V3, m: f64) -> bool {
        let l = pose.inv().apply(p);
        (0..3).all(|k| l[k] >= self.lo[k] as f64 - m && l[k] <= self.hi[k] as f64 + m)
    }
    pub fn vertex_count(&self) -> usize {
        if self.fan == 0 {
            8
        } else {
            14
        }
    }
    pub fn centre(&self) -> V3 {
        [(self.lo[0] + self.hi[0]) as f64 * 0.5, (self.lo[1] + self.hi[1]) as f64 * 0.5, (self.lo[2] + self.hi[2]) as f64 * 0.5]
    }
    pub fn half(&self) -> V3 {
        [(self.hi[0] - self.lo[0]) as f64 * 0.5, (self.hi[1] - self.lo[1]) as f64 * 0.5, (self.hi[2] - self.lo[2]) as f64 * 0.5]
    }
}

/// Arbitrary triangle mesh in its local frame (f32 values exactly as parry holds them).
#[derive(Clone, Debug)]
pub struct TriData {
    pub verts: Vec<[f32; 3]>,
    pub idx: Vec<[u32; 3]>,
    pub lo: [f32; 3],
    pub hi: [f32; 3],
}

impl TriData {
    pub fn from_trimesh(m: &parry3d::shape::TriMesh) -> TriData {
        let verts: Vec<[f32; 3]> = m.vertices().iter().map(|p| [p.x, p.y, p.z]).collect();
        let idx: Vec<[u32; 3]> = m.indices().to_vec();
        let mut lo = [f32::INFINITY; 3];
        let mut hi = [f32::NEG_INFINITY; 3];
        for v in &verts {
            for k in 0..3 {
                lo[k] = lo[k].min(v[k]);
                hi[k] = hi[k].max(v[k]);
            }
        }
        TriData { verts, idx, lo, hi }
    }
    pub fn world_tris(&self, pose: &Iso) -> Vec<Tri> {
        let w: Vec<V3> = self.verts.iter().map(|p| pose.apply(&[p[0] as f64, p[1] as f64, p[2] as f64])).collect();
        self.idx.iter().map(|t| [w[t[0] as usize], w[t[1] as usize], w[t[2] as usize]]).collect()
    }
}

fn tri_aabb(t: &Tri) -> (V3, V3) {
    let mut lo = t[0];
    let mut hi = t[0];
    for v in &t[1..] {
        for k in 0..3 {
            lo[k] = lo[k].min(v[k]);
            hi[k] = hi[k].max(v[k]);
        }
    }
    (lo, hi)
}

fn aabb_gap2(a: &(V3, V3), b: &(V3, V3)) -> f64 {
    let mut s = 0.0;
    for k in 0..3 {
        let g = (a.0[k] - b.1[k]).max(b.0[k] - a.1[k]).max(0.0);
        s += g * g;
    }
    s
}

pub fn set_aabb(t: &[Tri]) -> (V3, V3) {
    let mut lo = [f64::INFINITY; 3];
    let mut hi = [f64::NEG_INFINITY; 3];
    for tri in t {
        for v in tri {
            for k in 0..3 {
                lo[k] = lo[k].min(v[k]);
                hi[k] = hi[k].max(v[k]);
            }
        }
    }
    (lo, hi)
}

/// Exact surface distance between two placed meshes if it is <= cutoff, otherwise f64::INFINITY.
/// Brute force over all triangle pairs; pairs whose bounding boxes are further apart than the cutoff (or than the
/// best distance found so far) are skipped, which cannot change the result (box gap <= true distance).
pub fn mesh_dist_upto(a: &[Tri], b: &[Tri], cutoff: f64) -> f64 {
    let (ba, bb) = (set_aabb(a), set_aabb(b));
    let c2 = cutoff * cutoff;
    if aabb_gap2(&ba, &bb) > c2 {
        return f64::INFINITY;
    }
    // only triangles near the other mesh's bounding box can matter
    let near_a: Vec<(&Tri, (V3, V3))> = a.iter().map(|t| (t, tri_aabb(t))).filter(|(_, bx)| aabb_gap2(bx, &bb) <= c2).collect();
    let near_b: Vec<(&Tri, (V3, V3))> = b.iter().map(|t| (t, tri_aabb(t))).filter(|(_, bx)| aabb_gap2(bx, &ba) <= c2).collect();
    let mut best = f64::INFINITY;
    let mut best2 = c2;
    for (t1, b1) in &near_a {
        for (t2, b2) in &near_b {
            if aabb_gap2(b1, b2) > best2 {
                continue;
            }
            let d = tri_tri_dist(t1, t2);
            if d <= cutoff && d < best {
                best = d;
                best2 = d * d;
                if d == 0.0 {
                    return 0.0;
                }
            }
        }
    }
    best
}

/// Brute-force surface distance between two placed meshes.
pub fn mesh_dist(a: &[Tri], b: &[Tri]) -> f64 {
    let mut d = f64::INFINITY;
    for t1 in a {
        for t2 in b {
            let x = tri_tri_dist(t1, t2);
            if x < d {
                d = x;
                if d == 0.0 {
                    return 0.0;
                }
            }
        }
    }
    d
}

/// One closed box wholly inside the other (no surface contact): solid vs surface semantics differ.
pub fn contained(a: &MeshSpec, pa: &Iso, b: &MeshSpec, pb: &Iso) -> bool {
    let a_in_b = a.world_vertices(pa).iter().all(|p| b.contains_world(pb, p, 0.0));
    let b_in_a = b.world_vertices(pb).iter().all(|p| a.contains_world(pa, p, 0.0));
    a_in_b || b_in_a
}

pub fn iso_to_f32(i: &Iso) -> nalgebra::Isometry3<f32> {
    crate::glue::to_na(i).cast::<f32>()
}

/// Read an f32 isometry (as stored in a CollisionBody) back into the oracle's f64 representation.
pub fn iso_from_f32(i: &nalgebra::Isometry3<f32>) -> Iso {
    let q = i.rotation.quaternion();
    let r = quat_to_mat(q.w as f64, q.i as f64, q.j as f64, q.k as f64).unwrap_or(ident());
    Iso::new(r, [i.translation.vector.x as f64, i.translation.vector.y as f64, i.translation.vector.z as f64])
}
