#![allow(dead_code)]
use opwv::props;
use opwv::engine;

use engine::*;
use std::path::PathBuf;

fn usage() -> ! {
    eprintln!("usage: opwv run <ID> [--tier quick|thorough] [--seed N] [--evidence FILE] [--scale F]\n       opwv replay <ID> <FILE>");
    std::process::exit(2)
}

macro_rules! dispatch {
    ($id:expr, $f:ident, $($arg:expr),*) => {
        match $id {
            "C01" => $f(props::c01::C01, $($arg),*),
            "C02" => $f(props::c02::C02, $($arg),*),
            "C03" => $f(props::c03::C03, $($arg),*),
            "C04" => $f(props::c04::C04, $($arg),*),
            "C05" => $f(props::c05::C05, $($arg),*),
            "C06" => $f(props::c06::C06, $($arg),*),
            "C07" => $f(props::c07::C07, $($arg),*),
            "C08" => $f(props::c08::C08, $($arg),*),
            "C09" => $f(props::c09::C09, $($arg),*),
            "C10" => $f(props::c10::C10, $($arg),*),
            "C11" => $f(props::c11::C11, $($arg),*),
            "C12" => $f(props::c12::C12, $($arg),*),
            "C13" => $f(props::c13::C13, $($arg),*),
            "C14" => $f(props::c14::C14, $($arg),*),
            "C15" => $f(props::c15::C15, $($arg),*),
            "C16" => $f(props::c16::C16, $($arg),*),
            "C17" => $f(props::c17::C17, $($arg),*),
            "C18" => $f(props::c18::C18, $($arg),*),
            "C19" => $f(props::c19::C19, $($arg),*),
            "C20" => $f(props::c20::C20, $($arg),*),
            _ => { eprintln!("unknown property {}", $id); 2 }
        }
    };
}

fn main() {
    let args: Vec<String> = std::env::args().collect();
    if args.len() < 3 {
        usage();
    }
    let cmd = args[1].as_str();
    let id = args[2].to_uppercase();
    silence_stdout();
    let code = match cmd {
        "run" => {
            let mut tier = match std::env::var("VERIF_TIER").ok().as_deref() {
                Some("thorough") => Tier::Thorough,
                _ => Tier::Quick,
            };
            let mut seed: u64 = std::env::var("VERIF_SEED").ok().and_then(|s| s.trim().parse::<i64>().ok()).map(|x| x as u64).unwrap_or(20260927);
            let mut evidence: Option<PathBuf> = None;
            let mut scale = 1.0f64;
            let mut i = 3;
            while i < args.len() {
                match args[i].as_str() {
                    "--tier" => {
                        i += 1;
                        tier = match args.get(i).map(|s| s.as_str()) {
                            Some("quick") => Tier::Quick,
                            Some("thorough") => Tier::Thorough,
                            _ => usage(),
                        };
                    }
                    "--seed" => {
                        i += 1;
                        seed = args.get(i).and_then(|s| s.parse::<i64>().ok()).map(|x| x as u64).unwrap_or_else(|| usage());
                    }
                    "--evidence" => {
                        i += 1;
                        evidence = args.get(i).map(PathBuf::from);
                    }
                    "--scale" => {
                        i += 1;
                        scale = args.get(i).and_then(|s| s.parse().ok()).unwrap_or_else(|| usage());
                    }
                    _ => usage(),
                }
                i += 1;
            }
            let evidence = evidence.unwrap_or_else(|| std::env::var("VERIF_EVIDENCE_DIR").map(PathBuf::from).unwrap_or_else(|_| verif_root().join("evidence")).join(format!("{}.json", id)));
            let ra = RunArgs { tier, seed, evidence, scale };
            dispatch!(id.as_str(), run_property, ra)
        }
        "replay" => {
            if args.len() < 4 {
                usage();
            }
            let path = PathBuf::from(&args[3]);
            dispatch!(id.as_str(), replay_property, &path)
        }
        _ => usage(),
    };
    props::c19::cleanup_tmp();
    std::process::exit(code);
}
