#![allow(dead_code)]
use opwv::props;
use opwv::engine;
use opwv::outln;

use engine::*;
use std::path::PathBuf;

fn usage() -> ! {
    eprintln!("usage: opwv run <ID> [--tier quick|thorough] [--seed N] [--evidence FILE] [--scale F]\n       opwv replay <ID> <FILE>");
    std::process::exit(2)
}

macro_rules! dispatch {
    ($id:expr, $f:ident, $($arg:expr),*) => {
        match $id {
            "C01" => $f(props::c01::C01, $($arg),*),
            "C02" => $f(props::c02::C02, $($arg),*),
            "C03" => $f(props::c03::C03, $($arg),*),
            "C04" => $f(props::c04::C04, $($arg),*),
            "C05" => $f(props::c05::C05, $($arg),*),
            "C06" => $f(props::c06::C06, $($arg),*),
            "C07" => $f(props::c07::C07, $($arg),*),
            "C08" => $f(props::c08::C08, $($arg),*),
            "C09" => $f(props::c09::C09, $($arg),*),
            "C10" => $f(props::c10::C10, $($arg),*),
            "C11" => $f(props::c11::C11, $($arg),*),
            "C12" => $f(props::c12::C12, $($arg),*),
            "C13" => $f(props::c13::C13, $($arg),*),
            "C14" => $f(props::c14::C14, $($arg),*),
            "C15" => $f(props::c15::C15, $($arg),*),
            "C16" => $f(props::c16::C16, $($arg),*),
            "C17" => $f(props::c17::C17, $($arg),*),
            "C18" => $f(props::c18::C18, $($arg),*),
            "C19" => $f(props::c19::C19, $($arg),*),
            "C20" => $f(props::c20::C20, $($arg),*),
            _ => { eprintln!("unknown property {}", $id); 2 }
        }
    };
}

/// Deterministic seed corpora for the libFuzzer targets (committed under fuzz/seeds/).
fn gen_corpus(fuzz_dir: &std::path::Path) {
    use proptest::strategy::{Strategy, ValueTree};
    use proptest::test_runner::TestRunner;
    let mut runner = TestRunner::deterministic();
    let y = opwv::props::c19::corpus_strategy();
    let u = opwv::props::c20::corpus_strategy();
    for i in 0..30 {
        let doc = y.new_tree(&mut runner).unwrap().current();
        std::fs::write(fuzz_dir.join(format!("seeds/yaml_bytes/gen-{:02}.yaml", i)), doc).unwrap();
        let doc = u.new_tree(&mut runner).unwrap().current();
        std::fs::write(fuzz_dir.join(format!("seeds/urdf_bytes/gen-{:02}.urdf", i)), doc).unwrap();
    }
    let mut state: u64 = 0x0123_4567_89ab_cdef;
    for i in 0..40 {
        let mut b = Vec::new();
        for _ in 0..256 {
            state = state.wrapping_mul(6364136223846793005).wrapping_add(1442695040888963407);
            b.push((state >> 33) as u8);
        }
        if i % 4 == 0 {
            // tame prefix: dof 6, default signs, selector bytes choosing "scaled small number"
            for k in 0..b.len() {
                if k % 3 == 2 {
                    b[k] = 2;
                }
            }
        }
        std::fs::write(fuzz_dir.join(format!("seeds/ik_struct/gen-{:02}.bin", i)), b).unwrap();
    }
}

fn main() {
    let args: Vec<String> = std::env::args().collect();
    if args.len() < 3 {
        usage();
    }
    let cmd = args[1].as_str();
    let id = if cmd == "gencorpus" { String::new() } else { args[2].to_uppercase() };
    silence_stdout();
    let code = match cmd {
        "run" => {
            let mut tier = match std::env::var("VERIF_TIER").ok().as_deref() {
                Some("thorough") => Tier::Thorough,
                _ => Tier::Quick,
            };
            let mut seed: u64 = std::env::var("VERIF_SEED").ok().and_then(|s| s.trim().parse::<i64>().ok()).map(|x| x as u64).unwrap_or(20260927);
            let mut evidence: Option<PathBuf> = None;
            let mut scale = 1.0f64;
            let mut fuzz_summary: Option<PathBuf> = None;
            let mut i = 3;
            while i < args.len() {
                match args[i].as_str() {
                    "--tier" => {
                        i += 1;
                        tier = match args.get(i).map(|s| s.as_str()) {
                            Some("quick") => Tier::Quick,
                            Some("thorough") => Tier::Thorough,
                            _ => usage(),
                        };
                    }
                    "--seed" => {
                        i += 1;
                        seed = args.get(i).and_then(|s| s.parse::<i64>().ok()).map(|x| x as u64).unwrap_or_else(|| usage());
                    }
                    "--evidence" => {
                        i += 1;
                        evidence = args.get(i).map(PathBuf::from);
                    }
                    "--fuzz-summary" => {
                        i += 1;
                        fuzz_summary = args.get(i).map(PathBuf::from);
                    }
                    "--scale" => {
                        i += 1;
                        scale = args.get(i).and_then(|s| s.parse().ok()).unwrap_or_else(|| usage());
                    }
                    _ => usage(),
                }
                i += 1;
            }
            let evidence = evidence.unwrap_or_else(|| std::env::var("VERIF_EVIDENCE_DIR").map(PathBuf::from).unwrap_or_else(|_| verif_root().join("evidence")).join(format!("{}.json", id)));
            let ra = RunArgs { tier, seed, evidence, scale, fuzz_summary };
            dispatch!(id.as_str(), run_property, ra)
        }
        "replay" => {
            if args.len() < 4 {
                usage();
            }
            let path = PathBuf::from(&args[3]);
            // raw libFuzzer artifact (not a JSON replay file)?
            let raw = std::fs::read(&path).unwrap_or_default();
            let is_json = serde_json::from_slice::<serde_json::Value>(&raw).map(|v| v.is_object()).unwrap_or(false);
            if !is_json && ["C01", "C19", "C20"].contains(&id.as_str()) {
                std::panic::set_hook(Box::new(|_| {}));
                let r = match id.as_str() {
                    "C01" => opwv::fuzzdec::ik_struct(&raw),
                    "C19" => opwv::fuzzdec::yaml_bytes(&raw),
                    _ => opwv::fuzzdec::urdf_bytes(&raw),
                };
                let _ = std::panic::take_hook();
                match r {
                    Ok(()) => {
                        outln!("REPLAY-OK property={} file={} (raw fuzz artifact, {} bytes)", id, path.display(), raw.len());
                        0
                    }
                    Err(v) => {
                        outln!("violated clause: {}", v.clause);
                        outln!("detail: {}", v.detail);
                        outln!("VIOLATION property={} replay={}", id, path.display());
                        1
                    }
                }
            } else {
                dispatch!(id.as_str(), replay_property, &path)
            }
        }
        "gencorpus" => {
            gen_corpus(&PathBuf::from(&args[2]));
            0
        }
        _ => usage(),
    };
    props::c19::cleanup_tmp();
    std::process::exit(code);
}
