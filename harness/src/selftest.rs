//! Oracle self-tests, run at the start of every check and recorded in the evidence.

use crate::model::*;
use serde_json::{json, Value};

fn nums(s: &str) -> Vec<f64> {
    s.split(|c: char| !(c.is_ascii_digit() || c == '.' || c == '-' || c == 'e' || c == 'E' || c == '+'))
        .filter(|t| !t.is_empty() && t.chars().any(|c| c.is_ascii_digit()))
        .filter_map(|t| t.parse::<f64>().ok())
        .collect()
}

/// Model M against the 2048 recorded cases produced by the independent C++ implementation
/// (src/tests/data/cases.yaml): FK of the recorded joints must equal the recorded pose, and the FK
/// of every recorded solution as well (2048 comparisons; recorded solution lists counted separately). Max deviation must stay below 1e-5.
pub fn model_vs_recorded() -> Result<Value, String> {
    let path = crate::engine::repo_root().join("src/tests/data/cases.yaml");
    let txt = std::fs::read_to_string(&path).map_err(|e| format!("{}: {}", path.display(), e))?;
    let irb = RobotSpec { a1: 0.100, a2: -0.135, b: 0.0, c1: 0.615, c2: 0.705, c3: 0.755, c4: 0.085, offsets: [0.0, 0.0, -PI / 2.0, 0.0, 0.0, 0.0], signs: [1; 6], dof: 6 };
    let kuka = RobotSpec { a1: 0.025, a2: -0.035, b: 0.0, c1: 0.400, c2: 0.315, c3: 0.365, c4: 0.080, offsets: [0.0, -PI / 2.0, 0.0, 0.0, 0.0, 0.0], signs: [-1, 1, 1, -1, 1, -1], dof: 6 };
    let mut robot = irb;
    let mut joints: Option<[f64; 6]> = None;
    let mut pose: Option<Iso> = None;
    let mut n_cmp = 0u64;
    let mut n_cases = 0u64;
    let mut n_sol = 0u64;
    let mut n_sol_ok = 0u64;
    let mut max_dp = 0.0f64;
    let mut max_da = 0.0f64;
    for line in txt.lines() {
        let l = line.trim();
        if let Some(r) = l.strip_prefix("parameters:") {
            robot = if r.trim().starts_with("Irb") { irb } else { kuka };
        } else if let Some(r) = l.strip_prefix("joints:") {
            let v = nums(r);
            if v.len() == 6 {
                let mut j = [0.0; 6];
                for k in 0..6 {
                    j[k] = v[k].to_radians();
                }
                joints = Some(j);
            }
        } else if let Some(r) = l.strip_prefix("pose:") {
            let v = nums(r);
            if v.len() == 7 {
                let m = quat_to_mat(v[6], v[3], v[4], v[5]).ok_or("bad quaternion")?;
                pose = Some(Iso::new(m, [v[0], v[1], v[2]]));
                if let (Some(j), Some(p)) = (joints, pose) {
                    let f = robot.fk(&j);
                    max_dp = max_dp.max(dist(&f.p, &p.p));
                    max_da = max_da.max(rot_angle(&f.r, &p.r));
                    n_cmp += 1;
                    n_cases += 1;
                }
            }
        } else if let Some(r) = l.strip_prefix("solutions:") {
            let v = nums(r);
            if let Some(p) = pose {
                for s in v.chunks(6) {
                    if s.len() == 6 {
                        let mut j = [0.0; 6];
                        for k in 0..6 {
                            j[k] = s[k].to_radians();
                        }
                        let f = robot.fk(&j);
                        // recorded solution lists are not used by the repository's own tests (some
                        // entries are wrist-singular artefacts); they are only counted when they agree
                        if dist(&f.p, &p.p) < 1e-5 && rot_angle(&f.r, &p.r) < 1e-5 {
                            n_sol_ok += 1;
                        }
                        n_sol += 1;
                    }
                }
            }
        }
    }
    if n_cases < 2000 {
        return Err(format!("only {} recorded cases parsed from {}", n_cases, path.display()));
    }
    if max_dp > 1e-5 || max_da > 1e-5 {
        return Err(format!("model M disagrees with the recorded C++ cases: max dp={:e} max dang={:e}", max_dp, max_da));
    }
    Ok(json!({"oracle": "M (OPW link model) vs src/tests/data/cases.yaml", "recorded_cases": n_cases, "comparisons": n_cmp, "recorded_solutions_seen": n_sol, "recorded_solutions_agreeing": n_sol_ok, "max_position_dev": max_dp, "max_angle_dev": max_da, "bound": 1e-5}))
}

/// Oracle A against the README examples and the repository's own tables.
pub fn arc_selftest() -> Result<Value, String> {
    use crate::arc::*;
    let d = |x: f64| x.to_radians();
    let g = 1e-9;
    let mut n = 0;
    let mut chk = |from: f64, to: f64, x: f64, want: bool| -> Result<(), String> {
        n += 1;
        let v = arc_member(d(from), d(to), d(x), g);
        let ok = (v == Verdict::In) == want && v != Verdict::Undecided;
        if ok { Ok(()) } else { Err(format!("arc oracle self-test: from={} to={} x={} got {:?} want {}", from, to, x, v, want)) }
    };
    // README: 5..15 accepts 10, rejects 20; 15..5 accepts 20, 0, 350, rejects 10
    chk(5.0, 15.0, 10.0, true)?;
    chk(5.0, 15.0, 20.0, false)?;
    chk(15.0, 5.0, 20.0, true)?;
    chk(15.0, 5.0, 0.0, true)?;
    chk(15.0, 5.0, 350.0, true)?;
    chk(15.0, 5.0, 10.0, false)?;
    // repo test_special_cases / over_360 style
    chk(0.0, 360.0, 123.0, true)?;
    chk(-180.0, 180.0, 179.0, true)?;
    chk(350.0, 10.0, 355.0, true)?;
    chk(350.0, 10.0, 5.0, true)?;
    chk(350.0, 10.0, 20.0, false)?;
    chk(10.0, 20.0, 375.0, true)?;
    chk(370.0, 380.0, 15.0, true)?;
    chk(370.0, 380.0, 25.0, false)?;
    chk(-10.0, 10.0, 355.0, true)?;
    chk(-10.0, 10.0, 180.0, false)?;
    // integer oracle agrees with the real one on a coarse lattice (interior points)
    let mut m = 0;
    for from in (-720..=720).step_by(45) {
        for to in (-720..=720).step_by(45) {
            for x in (-720..=720).step_by(15) {
                let a = arc_member_deg(from, to, x);
                let b = arc_member(d(from as f64), d(to as f64), d(x as f64), g);
                if b != Verdict::Undecided && (b == Verdict::In) != a {
                    return Err(format!("integer and real arc oracles disagree at from={} to={} x={}", from, to, x));
                }
                m += 1;
            }
        }
    }
    Ok(json!({"oracle": "A (arc membership)", "table_checks": n, "integer_vs_real_lattice_points": m}))
}

/// Oracle D (brute-force mesh distance): analytic box gaps, and agreement with parry3d::query::distance on
/// random box pairs (statistics recorded; calibrates the guard band).
pub fn mesh_selftest() -> Result<Value, String> {
    use crate::mesh::*;
    let unit = MeshSpec { lo: [-0.5, -0.5, -0.5], hi: [0.5, 0.5, 0.5], fan: 0 };
    let fan = MeshSpec { lo: [-0.5, -0.5, -0.5], hi: [0.5, 0.5, 0.5], fan: 1 };
    let mut checks = 0;
    for gap in [0.001, 0.05, 0.3, 2.0] {
        for ang in [0.0, 0.4, 1.3] {
            // faces parallel, second box rotated about x and shifted along x by 1 + gap
            let p2 = Iso::new(rotx(ang), [1.0 + gap, 0.1, -0.2]);
            let d = mesh_dist(&unit.world_tris(&Iso::identity()), &fan.world_tris(&p2));
            if (d - gap).abs() > 1e-12 {
                return Err(format!("oracle D: parallel boxes at gap {} (rot {}): got {}", gap, ang, d));
            }
            checks += 1;
        }
        // corner to corner along the diagonal
        let s = 1.0 + gap;
        let p2 = Iso::new(ident(), [s, s, s]);
        let d = mesh_dist(&unit.world_tris(&Iso::identity()), &unit.world_tris(&p2));
        let want = (3.0f64).sqrt() * gap;
        if (d - want).abs() > 1e-12 {
            return Err(format!("oracle D: corner distance at gap {}: got {} want {}", gap, d, want));
        }
        checks += 1;
    }
    // penetrating boxes -> 0
    let p2 = Iso::new(axis_angle(&[1.0, 2.0, 3.0], 0.7), [0.6, 0.2, 0.1]);
    if mesh_dist(&unit.world_tris(&Iso::identity()), &unit.world_tris(&p2)) != 0.0 {
        return Err("oracle D: penetrating boxes must have distance 0".into());
    }
    // agreement with parry on pseudo-random pairs (deterministic LCG)
    let mut state: u64 = 0x1234_5678_9abc_def0;
    let mut rnd = || {
        state = state.wrapping_mul(6364136223846793005).wrapping_add(1442695040888963407);
        ((state >> 11) as f64) / ((1u64 << 53) as f64)
    };
    let mut max_diff = 0.0f64;
    let mut n = 0;
    let mut n_sep = 0;
    let mut disagree_intersect = 0;
    for _ in 0..1500 {
        let a = MeshSpec { lo: [-(0.05 + rnd() as f32 * 0.4), -(0.05 + rnd() as f32 * 0.4), -(0.05 + rnd() as f32 * 0.4)], hi: [0.05 + rnd() as f32 * 0.4, 0.05 + rnd() as f32 * 0.4, 0.05 + rnd() as f32 * 0.4], fan: (rnd() * 2.0) as u8 };
        let b = MeshSpec { lo: [-(0.05 + rnd() as f32 * 0.4), -(0.05 + rnd() as f32 * 0.4), -(0.05 + rnd() as f32 * 0.4)], hi: [0.05 + rnd() as f32 * 0.4, 0.05 + rnd() as f32 * 0.4, 0.05 + rnd() as f32 * 0.4], fan: (rnd() * 2.0) as u8 };
        let pa = Iso::new(axis_angle(&[rnd() - 0.5, rnd() - 0.5, rnd() - 0.5], rnd() * 6.0), [rnd() * 2.0 - 1.0, rnd() * 2.0 - 1.0, rnd() * 2.0 - 1.0]);
        let pb = Iso::new(axis_angle(&[rnd() - 0.5, rnd() - 0.5, rnd() - 0.5], rnd() * 6.0), [rnd() * 3.0 - 1.5, rnd() * 3.0 - 1.5, rnd() * 3.0 - 1.5]);
        let (pa32, pb32) = (iso_to_f32(&pa), iso_to_f32(&pb));
        let d_oracle = mesh_dist(&a.world_tris(&iso_from_f32(&pa32)), &b.world_tris(&iso_from_f32(&pb32)));
        let d_parry = parry3d::query::distance(&pa32, &a.trimesh(), &pb32, &b.trimesh()).map_err(|e| format!("parry distance: {:?}", e))? as f64;
        let i_parry = parry3d::query::intersection_test(&pa32, &a.trimesh(), &pb32, &b.trimesh()).map_err(|e| format!("parry intersection: {:?}", e))?;
        n += 1;
        if d_oracle > 1e-3 {
            n_sep += 1;
            max_diff = max_diff.max((d_oracle - d_parry).abs());
            if i_parry {
                disagree_intersect += 1;
            }
        } else if d_oracle == 0.0 && !i_parry && !contained(&a, &pa, &b, &pb) {
            // grazing contacts may differ; count only
            disagree_intersect += 1;
        }
    }
    if max_diff > 1e-4 {
        return Err(format!("oracle D disagrees with parry3d::query::distance by {:e} on separated random boxes", max_diff));
    }
    Ok(json!({"oracle": "D (brute-force triangle-triangle mesh distance)", "analytic_checks": checks, "random_pairs": n, "separated_pairs_compared": n_sep,
              "max_abs_diff_vs_parry": max_diff, "intersection_disagreements": disagree_intersect, "guard_band_m": GUARD}))
}

/// Guard band (m) around every distance threshold: far above the measured parry-vs-oracle disagreement
/// (f32 meshes and poses: ~1e-6 m) and the f32 cast of the link poses.
pub const GUARD: f64 = 1e-4;
