//! Conversions between the oracle's plain types and the library's types (input construction and
//! output reading only; no library computation is used as an oracle here).

use crate::model::*;
use nalgebra::{Isometry3, Quaternion, Translation3, UnitQuaternion};
use rs_opw_kinematics::constraints::Constraints;
use rs_opw_kinematics::kinematics_impl::OPWKinematics;
use rs_opw_kinematics::parameters::opw_kinematics::Parameters;

pub fn params(r: &RobotSpec) -> Parameters {
    Parameters {
        a1: r.a1,
        a2: r.a2,
        b: r.b,
        c1: r.c1,
        c2: r.c2,
        c3: r.c3,
        c4: r.c4,
        offsets: r.offsets,
        sign_corrections: r.signs,
        dof: r.dof,
    }
}

pub fn spec_of(p: &Parameters) -> RobotSpec {
    RobotSpec { a1: p.a1, a2: p.a2, b: p.b, c1: p.c1, c2: p.c2, c3: p.c3, c4: p.c4, offsets: p.offsets, signs: p.sign_corrections, dof: p.dof }
}

pub fn opw(r: &RobotSpec) -> OPWKinematics {
    OPWKinematics::new(params(r))
}

pub fn opw_c(r: &RobotSpec, c: Constraints) -> OPWKinematics {
    OPWKinematics::new_with_constraints(params(r), c)
}

pub fn to_na(iso: &Iso) -> Isometry3<f64> {
    let q = mat_to_quat(&iso.r);
    Isometry3::from_parts(
        Translation3::new(iso.p[0], iso.p[1], iso.p[2]),
        UnitQuaternion::from_quaternion(Quaternion::new(q[0], q[1], q[2], q[3])),
    )
}

/// Build a pose from raw quaternion coordinates without normalisation (for non-finite injection).
pub fn to_na_raw(t: &V3, q: &[f64; 4]) -> Isometry3<f64> {
    Isometry3::from_parts(Translation3::new(t[0], t[1], t[2]), UnitQuaternion::new_unchecked(Quaternion::new(q[0], q[1], q[2], q[3])))
}

/// Read a library pose into the oracle's representation (quaternion coordinates -> matrix by the
/// oracle's own formula). None if not finite.
pub fn from_na(p: &Isometry3<f64>) -> Option<Iso> {
    let q = p.rotation.quaternion();
    let r = quat_to_mat(q.w, q.i, q.j, q.k)?;
    let t = [p.translation.vector.x, p.translation.vector.y, p.translation.vector.z];
    let iso = Iso::new(r, t);
    if iso.is_finite() {
        Some(iso)
    } else {
        None
    }
}

pub fn quat_norm(p: &Isometry3<f64>) -> f64 {
    let q = p.rotation.quaternion();
    (q.w * q.w + q.i * q.i + q.j * q.j + q.k * q.k).sqrt()
}

pub fn catalogue() -> Vec<(&'static str, RobotSpec)> {
    vec![
        ("igus_rebel", spec_of(&Parameters::igus_rebel())),
        ("irb2400_10", spec_of(&Parameters::irb2400_10())),
        ("staubli_tx2_140", spec_of(&Parameters::staubli_tx2_140())),
        ("staubli_tx2_160", spec_of(&Parameters::staubli_tx2_160())),
        ("staubli_tx2_160l", spec_of(&Parameters::staubli_tx2_160l())),
        ("fanuc_r2000ib_200r", spec_of(&Parameters::fanuc_r2000ib_200r())),
        ("kuka_kr6_r700_sixx", spec_of(&Parameters::kuka_kr6_r700_sixx())),
        ("staubli_tx40", spec_of(&Parameters::staubli_tx40())),
        ("staubli_rx160", spec_of(&Parameters::staubli_rx160())),
        ("irb2600_12_165", spec_of(&Parameters::irb2600_12_165())),
        ("irb4600_60_205", spec_of(&Parameters::irb4600_60_205())),
    ]
}
