//! Oracle M: independent OPW link model, written with explicit 3x3 matrices / 3-vectors in f64.
//! Nothing in this file calls into rs-opw-kinematics, and no nalgebra isometry composition is used.
//!
//! M_i(q) = Tz(c1)Rz(q1) . T(a1,b,0)Ry(q2) . T(0,0,c2)Ry(q3) . T(a2,0,0)Rz(q4) . T(0,0,c3)Ry(q5) . T(0,0,c4)Rz(q6)
//! truncated after factor i, with model angle q_k = sign_k * J_k - offset_k.

use serde::{Deserialize, Serialize};

pub type V3 = [f64; 3];
pub type M3 = [[f64; 3]; 3];

pub const PI: f64 = std::f64::consts::PI;
pub const TWO_PI: f64 = 2.0 * std::f64::consts::PI;

#[derive(Clone, Copy, Debug, PartialEq)]
pub struct Iso {
    pub r: M3,
    pub p: V3,
}

pub fn ident() -> M3 {
    [[1.0, 0.0, 0.0], [0.0, 1.0, 0.0], [0.0, 0.0, 1.0]]
}
pub fn rotz(a: f64) -> M3 {
    let (s, c) = a.sin_cos();
    [[c, -s, 0.0], [s, c, 0.0], [0.0, 0.0, 1.0]]
}
pub fn roty(a: f64) -> M3 {
    let (s, c) = a.sin_cos();
    [[c, 0.0, s], [0.0, 1.0, 0.0], [-s, 0.0, c]]
}
pub fn rotx(a: f64) -> M3 {
    let (s, c) = a.sin_cos();
    [[1.0, 0.0, 0.0], [0.0, c, -s], [0.0, s, c]]
}
pub fn mmul(a: &M3, b: &M3) -> M3 {
    let mut o = [[0.0; 3]; 3];
    for i in 0..3 {
        for j in 0..3 {
            o[i][j] = a[i][0] * b[0][j] + a[i][1] * b[1][j] + a[i][2] * b[2][j];
        }
    }
    o
}
pub fn mtr(a: &M3) -> M3 {
    let mut o = [[0.0; 3]; 3];
    for i in 0..3 {
        for j in 0..3 {
            o[i][j] = a[j][i];
        }
    }
    o
}
pub fn mv(a: &M3, v: &V3) -> V3 {
    [
        a[0][0] * v[0] + a[0][1] * v[1] + a[0][2] * v[2],
        a[1][0] * v[0] + a[1][1] * v[1] + a[1][2] * v[2],
        a[2][0] * v[0] + a[2][1] * v[1] + a[2][2] * v[2],
    ]
}
pub fn add(a: &V3, b: &V3) -> V3 {
    [a[0] + b[0], a[1] + b[1], a[2] + b[2]]
}
pub fn sub(a: &V3, b: &V3) -> V3 {
    [a[0] - b[0], a[1] - b[1], a[2] - b[2]]
}
pub fn scale(a: &V3, s: f64) -> V3 {
    [a[0] * s, a[1] * s, a[2] * s]
}
pub fn dot(a: &V3, b: &V3) -> f64 {
    a[0] * b[0] + a[1] * b[1] + a[2] * b[2]
}
pub fn cross(a: &V3, b: &V3) -> V3 {
    [
        a[1] * b[2] - a[2] * b[1],
        a[2] * b[0] - a[0] * b[2],
        a[0] * b[1] - a[1] * b[0],
    ]
}
pub fn norm(a: &V3) -> f64 {
    dot(a, a).sqrt()
}
pub fn dist(a: &V3, b: &V3) -> f64 {
    norm(&sub(a, b))
}
pub fn det(m: &M3) -> f64 {
    m[0][0] * (m[1][1] * m[2][2] - m[1][2] * m[2][1]) - m[0][1] * (m[1][0] * m[2][2] - m[1][2] * m[2][0])
        + m[0][2] * (m[1][0] * m[2][1] - m[1][1] * m[2][0])
}
pub fn col(m: &M3, j: usize) -> V3 {
    [m[0][j], m[1][j], m[2][j]]
}

impl Iso {
    pub fn identity() -> Iso {
        Iso { r: ident(), p: [0.0; 3] }
    }
    pub fn new(r: M3, p: V3) -> Iso {
        Iso { r, p }
    }
    pub fn mul(&self, o: &Iso) -> Iso {
        Iso { r: mmul(&self.r, &o.r), p: add(&mv(&self.r, &o.p), &self.p) }
    }
    pub fn inv(&self) -> Iso {
        let rt = mtr(&self.r);
        let p = mv(&rt, &self.p);
        Iso { r: rt, p: [-p[0], -p[1], -p[2]] }
    }
    pub fn apply(&self, v: &V3) -> V3 {
        add(&mv(&self.r, v), &self.p)
    }
    pub fn is_finite(&self) -> bool {
        self.p.iter().all(|x| x.is_finite()) && self.r.iter().all(|r| r.iter().all(|x| x.is_finite()))
    }
    pub fn z_axis(&self) -> V3 {
        col(&self.r, 2)
    }
}

/// Angle of the relative rotation a^T b, computed as atan2(|vee(R - R^T)|/2, (tr R - 1)/2).
/// Full precision for micro-radian angles (acos of the trace would lose it).
pub fn rot_angle(a: &M3, b: &M3) -> f64 {
    let r = mmul(&mtr(a), b);
    let v = [r[2][1] - r[1][2], r[0][2] - r[2][0], r[1][0] - r[0][1]];
    let s = 0.5 * norm(&v);
    let c = 0.5 * (r[0][0] + r[1][1] + r[2][2] - 1.0);
    s.atan2(c)
}

/// Angle between two direction vectors (robust for tiny angles).
pub fn vec_angle(a: &V3, b: &V3) -> f64 {
    norm(&cross(a, b)).atan2(dot(a, b))
}

/// Rotation matrix of a quaternion (w, x, y, z); normalises first (oracle side; tolerant of
/// slightly de-normalised input). Returns None if the quaternion is not finite / zero.
pub fn quat_to_mat(w: f64, x: f64, y: f64, z: f64) -> Option<M3> {
    let n = (w * w + x * x + y * y + z * z).sqrt();
    if !n.is_finite() || n == 0.0 {
        return None;
    }
    let (w, x, y, z) = (w / n, x / n, y / n, z / n);
    Some([
        [1.0 - 2.0 * (y * y + z * z), 2.0 * (x * y - z * w), 2.0 * (x * z + y * w)],
        [2.0 * (x * y + z * w), 1.0 - 2.0 * (x * x + z * z), 2.0 * (y * z - x * w)],
        [2.0 * (x * z - y * w), 2.0 * (y * z + x * w), 1.0 - 2.0 * (x * x + y * y)],
    ])
}

/// Quaternion (w,x,y,z) of a proper rotation matrix (Shepperd), used to hand poses to the library.
pub fn mat_to_quat(m: &M3) -> [f64; 4] {
    let tr = m[0][0] + m[1][1] + m[2][2];
    let q;
    if tr > 0.0 {
        let s = (tr + 1.0).sqrt() * 2.0;
        q = [0.25 * s, (m[2][1] - m[1][2]) / s, (m[0][2] - m[2][0]) / s, (m[1][0] - m[0][1]) / s];
    } else if m[0][0] > m[1][1] && m[0][0] > m[2][2] {
        let s = (1.0 + m[0][0] - m[1][1] - m[2][2]).sqrt() * 2.0;
        q = [(m[2][1] - m[1][2]) / s, 0.25 * s, (m[0][1] + m[1][0]) / s, (m[0][2] + m[2][0]) / s];
    } else if m[1][1] > m[2][2] {
        let s = (1.0 + m[1][1] - m[0][0] - m[2][2]).sqrt() * 2.0;
        q = [(m[0][2] - m[2][0]) / s, (m[0][1] + m[1][0]) / s, 0.25 * s, (m[1][2] + m[2][1]) / s];
    } else {
        let s = (1.0 + m[2][2] - m[0][0] - m[1][1]).sqrt() * 2.0;
        q = [(m[1][0] - m[0][1]) / s, (m[0][2] + m[2][0]) / s, (m[1][2] + m[2][1]) / s, 0.25 * s];
    }
    let n = (q[0] * q[0] + q[1] * q[1] + q[2] * q[2] + q[3] * q[3]).sqrt();
    [q[0] / n, q[1] / n, q[2] / n, q[3] / n]
}

/// Rotation by `angle` about unit axis `k` (Rodrigues).
pub fn axis_angle(k: &V3, angle: f64) -> M3 {
    let n = norm(k);
    if n == 0.0 {
        return ident();
    }
    let k = [k[0] / n, k[1] / n, k[2] / n];
    let (s, c) = angle.sin_cos();
    let v = 1.0 - c;
    [
        [c + k[0] * k[0] * v, k[0] * k[1] * v - k[2] * s, k[0] * k[2] * v + k[1] * s],
        [k[1] * k[0] * v + k[2] * s, c + k[1] * k[1] * v, k[1] * k[2] * v - k[0] * s],
        [k[2] * k[0] * v - k[1] * s, k[2] * k[1] * v + k[0] * s, c + k[2] * k[2] * v],
    ]
}

/// OPW parameter set as the oracle sees it (mirrors the public `Parameters` fields).
#[derive(Clone, Copy, Debug, PartialEq, Serialize, Deserialize)]
pub struct RobotSpec {
    pub a1: f64,
    pub a2: f64,
    pub b: f64,
    pub c1: f64,
    pub c2: f64,
    pub c3: f64,
    pub c4: f64,
    pub offsets: [f64; 6],
    pub signs: [i8; 6],
    pub dof: i8,
}

impl RobotSpec {
    /// Joint value -> model angle.
    pub fn model_angles(&self, j: &[f64; 6]) -> [f64; 6] {
        let mut q = [0.0; 6];
        for k in 0..6 {
            q[k] = j[k] * self.signs[k] as f64 - self.offsets[k];
        }
        q
    }
    /// Model angle -> joint value (signs are +-1 here; sign 0 maps to 0).
    pub fn joint_values(&self, q: &[f64; 6]) -> [f64; 6] {
        let mut j = [0.0; 6];
        for k in 0..6 {
            j[k] = (q[k] + self.offsets[k]) * self.signs[k] as f64;
        }
        j
    }
    /// The six elementary transforms (factor i maps link frame i-1 to link frame i).
    pub fn factors(&self, j: &[f64; 6]) -> [Iso; 6] {
        let q = self.model_angles(j);
        [
            Iso::new(rotz(q[0]), [0.0, 0.0, self.c1]),
            Iso::new(roty(q[1]), [self.a1, self.b, 0.0]),
            Iso::new(roty(q[2]), [0.0, 0.0, self.c2]),
            Iso::new(rotz(q[3]), [self.a2, 0.0, 0.0]),
            Iso::new(roty(q[4]), [0.0, 0.0, self.c3]),
            Iso::new(rotz(q[5]), [0.0, 0.0, self.c4]),
        ]
    }
    /// All six link poses M_1..M_6.
    pub fn links(&self, j: &[f64; 6]) -> [Iso; 6] {
        let f = self.factors(j);
        let mut out = [Iso::identity(); 6];
        let mut acc = Iso::identity();
        for i in 0..6 {
            acc = acc.mul(&f[i]);
            out[i] = acc;
        }
        out
    }
    /// Flange pose M_6.
    pub fn fk(&self, j: &[f64; 6]) -> Iso {
        self.links(j)[5]
    }
    /// Sum of absolute link lengths: size scale for tolerances.
    pub fn reach(&self) -> f64 {
        self.a1.abs() + self.a2.abs() + self.b.abs() + self.c1.abs() + self.c2.abs() + self.c3.abs() + self.c4.abs()
    }
    /// Wrist centre (origin of link frame 5 = frame 4 origin shifted by c3) for the given joints.
    pub fn wrist_centre(&self, j: &[f64; 6]) -> V3 {
        self.links(j)[4].p
    }
    /// psi3 = atan2(a2, c3), k = sqrt(a2^2 + c3^2)
    pub fn psi3_k(&self) -> (f64, f64) {
        (self.a2.atan2(self.c3), (self.a2 * self.a2 + self.c3 * self.c3).sqrt())
    }
    /// Singularity margins of a joint vector (model side):
    /// (|sin q5|, |sin(q3 + psi3)|, rho^2 - b^2 of the wrist centre in the base frame minus c1..)
    pub fn margins(&self, j: &[f64; 6]) -> Margins {
        let q = self.model_angles(j);
        let (psi3, k) = self.psi3_k();
        let wc = self.wrist_centre(j);
        let rho2 = wc[0] * wc[0] + wc[1] * wc[1];
        // distance of the wrist centre from the J1 axis measured in the arm plane: nx1 + a1 (signed)
        // shoulder singularity: wrist centre on the J1 axis offset circle, rho^2 - b^2 -> 0
        Margins {
            wrist: q[4].sin().abs(),
            elbow: (q[2] + psi3).sin().abs() * if k == 0.0 || self.c2 == 0.0 { 0.0 } else { 1.0 },
            shoulder2: rho2 - self.b * self.b,
        }
    }
}

#[derive(Clone, Copy, Debug)]
pub struct Margins {
    pub wrist: f64,
    pub elbow: f64,
    pub shoulder2: f64,
}

/// Normalise an angle difference into (-pi, pi].
pub fn wrap_pi(mut d: f64) -> f64 {
    d = d % TWO_PI;
    if d > PI {
        d -= TWO_PI;
    } else if d <= -PI {
        d += TWO_PI;
    }
    d
}

/// Circular distance between two angles.
pub fn circ_dist(a: f64, b: f64) -> f64 {
    wrap_pi(a - b).abs()
}

/// Max circular distance over the six joints.
pub fn joints_circ_dist(a: &[f64; 6], b: &[f64; 6]) -> f64 {
    (0..6).map(|k| circ_dist(a[k], b[k])).fold(0.0, f64::max)
}
