HOOK_COMMITS = ["3210615", "0f00bd0", "4ea7e21"]
FUZZED = []
NA_REASONS = {}

add("C03",
    "property-based testing (proptest) against an independent reference model of the OPW link chain",
    "Random search over robots (all sign/offset conventions, degenerate lengths, dof 5/6) and joint vectors (up to |q| = 2pi*1e3): forward() and all six link poses are compared with an independently written link-chain model; metamorphic link-locality, link-origin distances and unit-rotation clauses. Finds any formula slip that moves a pose by more than 1e-9 relative; gives no guarantee outside the generated inputs.",
    "Trusted: harness/src/model.rs (validated at every run against the 2048 recorded C++ cases), proptest generators, f64 arithmetic.",
    "DESIGN.md section 5, C03")

PBT_M = "property-based testing (proptest, seeded, shrinking to a JSON replay) against the independent OPW link model"
add("C01", PBT_M + " as forward oracle for every returned solution",
    "Random search over all robot families, the four inverse entry points, reachable / singular / stretched / on-axis / unreachable / raw SE(3) / non-finite poses and all kinds of previous vectors: every returned joint vector is finite and its model forward pose equals the request (1 um, 1 urad; point+axis for the 5-DOF variants); plain inverse normalised; non-finite poses give []; no panic. Evidence of absence only within the generated cases.",
    "Trusted: harness model (self-tested against 2048 recorded C++ cases each run); tolerances 1e-6+1e-9*(1+reach).", "DESIGN.md section 5, C01")
add("C02", PBT_M + " (round trip q -> pose -> IK set) with closure relations",
    "For joint vectors outside model-computed singularity margins: the generating configuration is among the answers mod 2pi (1e-6), and for answers inside the margins: no duplicates, wrist twin present, same set size from each answer's pose. All closed-form branches are exercised on every case.",
    "Trusted: harness model; margins |sin q5|,|sin(q3+psi3)| > 0.01, rho^2-b^2 > 1e-4 define 'away from singularities'.", "DESIGN.md section 5, C02")
add("C04", "property-based testing: validity predicate over the returned list (nearest representative, cost order, superset of plain inverse) plus model-based joint-space histories",
    "Single calls over robots x poses x previous (incl. CONSTRAINT_CENTERED) x limits/weights x both continuation entry points; 20..200 step trajectories where each call's previous is the preceding first answer and must track the trajectory (no branch switch).",
    "Trusted: documented cost formula re-implemented in the harness; oracle A for limits; first-answer clause only for weight 0.", "DESIGN.md section 5, C04")
add("C05", "property-based testing + enumerated threshold grid against a geometric oracle (angle between J4 and J6 axes of the model link frames); metamorphic continuity check at exactly singular poses",
    "Detection decided at every multiple of pi, both sides of the 0.01 degree band, arbitrary J5 offset/sign, through wrappers (1e-6 relative sliver excluded). Continuity: at q5=0 with a well-conditioned arm the first answer equals the previous joints and a recovered answer moves J4 and J6 equally.",
    "Trusted: harness model; admission filter for continuity (sigma_min > 0.05 m/rad, shift sensitivity <= 0.4 urad, no second singular branch) is computed from the model only.", "DESIGN.md section 5, C05")
add("C07", "exhaustive enumeration of the 5-degree (thorough: 2.5-degree) lattice against exact integer arc arithmetic, plus property-based testing on reals with a guard band and metamorphic turn-shifts",
    "Every (from,to,angle) triple of the lattice in [-720,720]^3 through three constructors, boundaries included, is decided exactly; random reals in [-4pi,4pi] 1e-9 away from arc ends; whole turns added to the angle / both limits; centres accepted; filter == elementwise compliant; update_range == new.",
    "Trusted: integer/real arc oracle (self-tested on README and repository tables). The lattice part is exhaustive for the lattice, not for the reals.", "DESIGN.md section 5, C07")

add("C06", PBT_M + " through hand-composed wrapper stacks",
    "dof 5 and 6 robots x poses x J6 values/previous x entry points x {bare, axial Tool/Frame, arbitrary Base}: every answer carries the caller's J6 bit-exactly, reproduces tool point and tool axis, and the originating J1..J5 is present when non-singular (so a 5-DOF robot answers all four entry points).",
    "Trusted: harness model and stack composition; lever-aware position tolerance 1e-6*(1+tool lever).", "DESIGN.md section 5, C06")
add("C08", "differential property-based testing: the same solver stack with and without limits, admission decided by the independent arc oracle",
    "Constraint sets of every class x weights x dof 5/6 x poses (incl. exactly wrist-singular) x previous x four entry points x stacks up to depth 3 over Tool/Base/Frame/Parallelogram: constrained answers all admitted, every admitted unconstrained answer still present, nothing else returned; wrappers report the inner limits.",
    "Trusted: oracle A with 1e-9 guard band; limits through Parallelogram evaluated on the de-coupled vector.", "DESIGN.md section 5, C08")
add("C09", PBT_M + " folded with the wrapper transforms, plus an enumerated delegation matrix (3 wrapper types x 8 methods)",
    "Random isometries, stacks of depth 1..3 in every order, all entry points; forward == B*X*T, link-pose rules, inverse answers map back, continuation order and J6 pass-through survive the stack, answers equal those of the wrapped robot's same entry point for the un-wrapped request; LinearAxis/Gantry through hook constructors.",
    "Trusted: harness model; the delegation matrix is enumerated on fixed non-trivial transforms (exhaustive for the matrix, random for the arguments).", "DESIGN.md section 5, C09")
add("C16", PBT_M + " at de-coupled joints; all 30 (driven,coupled) pairs enumerated",
    "forward and link poses equal the inner model at q'[c]=q[c]-s*q[d]; every inverse answer of the four entry points maps back through the coupled forward (model and library); two stacked couplings compose; nesting with Tool/Base/Frame.",
    "Trusted: harness model and stack composition.", "DESIGN.md section 5, C16")
add("C17", "property-based testing: round trip rigid motion -> point images -> Frame::frame -> motion, oracle-decided rejection classes, model FK for forward_transformed",
    "Triples from well conditioned to nearly collinear (isosceles corners included), far from the origin, motions that leave the first point in place, perturbations around the 5 mm tolerance (guard 1e-9), exactly collinear integer-built sources/targets with the expected error type and flag, Frame::translation, forward_transformed pose/answers/order.",
    "Trusted: conditioning bound 1e-13*(1+offset/scale)/sin(theta_min); harness model.", "DESIGN.md section 5, C17")

add("C15", "property-based testing against an analytic (geometric) Jacobian built from the independent link model",
    "Numeric Jacobian read through the public API equals (sign_i*(a_i x (p-o_i)); sign_i*a_i) within the differencing error for bare/Tool/Base/Tool-over-Base robots (one in four over a parallelogram coupling, one in five modelled in millimetres) and steps 1e-7..1e-5; velocities invert it when cond < 1e4, torques are the transpose, isometry/vector/fixed entry points agree.",
    "Trusted: harness model; bound 2*eps*(1+R) + 20e-15*(1+R)/eps.", "DESIGN.md section 5, C15")
add("C18", "property-based testing with a seeded library RNG (verif_hooks) against the arc oracle and the constraints' own compliant()",
    "Constraint sets of every shape (wrapping both positive / both negative / straddling zero / to==0, from-to > 2pi, equal, span >= 2pi), 100..300 draws each: every draw lies on its arc, is accepted by compliant(), and the call does not panic.",
    "Trusted: oracle A; the hook only replaces the generator behind gen_range.", "DESIGN.md section 5, C18")
add("C19", "round-trip and grammar-based property testing of the YAML reader/writer; byte/token mutation for the no-panic clause; coverage-guided fuzzing (libFuzzer target yaml_bytes) in the thorough tier",
    "to_yaml -> file -> from_yaml_file round trips (lengths bit-equal, signs, dof, offsets to printed precision) over integral/decimal/extreme values and dof 5/6; every documented syntax variant rendered by an independent writer parses to the expected set; mutated and arbitrary documents give Ok or Err, never a panic.",
    "Trusted: the renderer (harness/src/props/c19.rs) as the definition of 'documented format'; Rust float formatting round-trips.", "DESIGN.md section 5, C19")
add("C20", "grammar-based property testing of the URDF extractor against by-construction expected values; negative documents; byte/token mutation and coverage-guided fuzzing (libFuzzer target urdf_bytes) in the thorough tier",
    "Documents rendered from OPW values in all supported layouts, orders (720 permutations), nestings, naming decorations, limit syntaxes and with duplicated copies: extracted parameters/signs/limits bit-equal, consistent to_robot/constraints/parameters, unlimited joints unconstrained; missing joint / conflicting duplicate / truncated / non-numeric documents give Err; nothing panics.",
    "Trusted: the renderer (harness/src/props/c20.rs); layouts outside the documented heuristics are not generated.", "DESIGN.md section 5, C20")

add("C10", "property-based testing against a brute-force triangle-triangle distance oracle over statement-enumerated body pairs; differential across rayon pool sizes and repeats",
    "Box-bodied robots with tool/base/environment and random safety tables: collides / collision_details / near(alternative table) / RobotBody::collides are compared with the exhaustive pair check in f64 (guard band 1e-4 m, grazing and containment undecided) in all three modes, over pools of 1/2/4/16 threads.",
    "Trusted: oracle D (self-tested analytically and against parry3d::query::distance each run), oracle M for placement. Individual interleavings are not enumerated; the observable result must be invariant over pool sizes and repeats.", "DESIGN.md section 5, C10")
add("C11", "differential property-based testing: robot-with-shape versus the hand-built documented stack filtered by the robot's own collides()",
    "Both constructors, four entry points: answers bit-equal to the stack's non-colliding answers in order; forward / link poses / limits / singularity delegated; positioned_robot places meshes at the stack's link poses.",
    "Trusted: C10 for collides() itself; harness model for the stack composition.", "DESIGN.md section 5, C11")
add("C14", "property-based testing against a reference enumeration (12 candidates filtered by the arc oracle and the robot's own full collision check), set comparison over pool sizes, with a cell-change history on the same robot",
    "Collision-free initial vectors, from/to targets that fold the arm into earlier links / the base / environment boxes: the offered set equals the legal and free candidates exactly, for pools of 1/3/4/16 threads; windows clipped at an edge; an obstacle added to and removed from the robot's public environment between calls.",
    "Trusted: collides() (decided by C10), oracle A for limits.", "DESIGN.md section 5, C14")

add("C12", "model-based property testing: generated planning histories (scene, start, pose polyline, planner settings) with a validity predicate over every waypoint of every returned plan, run under rayon pools of 1/4/16 threads",
    "Every Ok plan: all waypoints collision-free (robot's own collides, itself decided by C10) and within limits (oracle A), starts at the given start, onboarding in small joint-space steps to a solution of the landing pose, LAND/TRACE/PARK once each in order and reproduced by model FK, interpolated waypoints on the segment with monotone parameter and slerped orientation, transition cost bound, no LIN_INTERP when not requested; mixed Ok/Err across pool sizes is a violation when the onboarding is unobstructed and no RRT gap closing was needed.",
    "Trusted: harness model, C10 for collides. RRT sampling on rayon threads is made a pure function of (seed,start,goal) by the verif_hooks global seed; which strategy wins a race is left to the scheduler and must not matter..", "DESIGN.md section 5, C12")
add("C13", "property-based testing with a seeded planner RNG: validity predicate over returned paths; deterministic cancellation injected by a counting Kinematics wrapper owned by the harness",
    "Start/goal bit-exact, every node collision-free (same robot) and within non-wrapping limits, hops <= 3 steps; flag raised before the call => Err; raised at the N-th collision query => no further iteration begins.",
    "Trusted: C10 for collides, oracle A for limits; the hook replaces only the sampler's generator.", "DESIGN.md section 5, C13")
