HOOK_COMMITS = ["3210615"]
FUZZED = []
NA_REASONS = {}

add("C03",
    "property-based testing (proptest) against an independent reference model of the OPW link chain",
    "Random search over robots (all sign/offset conventions, degenerate lengths, dof 5/6) and joint vectors (up to |q| = 2pi*1e3): forward() and all six link poses are compared with an independently written link-chain model; metamorphic link-locality, link-origin distances and unit-rotation clauses. Finds any formula slip that moves a pose by more than 1e-9 relative; gives no guarantee outside the generated inputs.",
    "Trusted: harness/src/model.rs (validated at every run against the 2048 recorded C++ cases), proptest generators, f64 arithmetic.",
    "DESIGN.md section 5, C03")
