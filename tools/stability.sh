#!/bin/bash
# tools/stability.sh <tier> <seed>... : runs every check on the current tree for each seed (evidence redirected to scratch); prints anything that is not OK
cd "$(dirname "$0")/.."
TIER="$1"; shift
SCR="$(mktemp -d /dev/shm/opwv-stab.XXXXXX)"
export VERIF_EVIDENCE_DIR="$SCR/evidence" VERIF_REPLAYS_DIR="$SCR/replays"
for SEED in "$@"; do
  for p in C01 C02 C03 C04 C05 C06 C07 C08 C09 C10 C11 C12 C13 C14 C15 C16 C17 C18 C19 C20; do
    OUT="$(VERIF_SEED=$SEED ./check $p $TIER 2>&1)"; RC=$?
    if [ $RC != 0 ]; then echo "seed=$SEED $p rc=$RC"; echo "$OUT" | grep -v "^KNOWN-FINDING" | head -5; mkdir -p /tmp/stab-replays; cp -r "$SCR/replays/." /tmp/stab-replays/ 2>/dev/null; fi
  done
  echo "seed $SEED done"
done
rm -rf "$SCR"
