#!/usr/bin/env python3
"""tools/addfinding.py fixed <ID> <finding-id> <commit> "<what failed>" [replay]   |   open <ID> <finding-id> "<what fails>" """
import json, sys, os
HERE = os.path.dirname(os.path.dirname(os.path.abspath(__file__)))
p = os.path.join(HERE, "known_findings.json")
d = json.load(open(p))
kind = sys.argv[1]
if kind == "fixed":
    _, _, pid, fid, commit, what = sys.argv[:6]
    replay = sys.argv[6] if len(sys.argv) > 6 else None
    d["findings"] = [f for f in d["findings"] if f["id"] != fid]
    e = {"id": fid, "property": pid, "status": "fixed", "commit": commit, "what": what,
         "line": f"fixed: property={pid} {commit} {what}"}
    if replay: e["regress_replay"] = replay
    d["findings"].append(e)
else:
    _, _, pid, fid, what = sys.argv[:5]
    d["findings"] = [f for f in d["findings"] if f["id"] != fid]
    d["findings"].append({"id": fid, "property": pid, "status": "open", "what": what})
json.dump(d, open(p, "w"), indent=1)
print(len(d["findings"]), "findings")
