#!/usr/bin/env python3
"""Regenerates /verif/MANIFEST.json from the table below (kept valid at all times)."""
import json, os, sys
HERE = os.path.dirname(os.path.dirname(os.path.abspath(__file__)))

# id -> (technique, level text, level note, design ref)
CHECKS = {}
def add(pid, technique, text, note, ref):
    CHECKS[pid] = (technique, text, note, ref)

exec(open(os.path.join(HERE, "tools", "checks_table.py")).read())

NOT_APPLICABLE = []
props = [json.loads(l)["id"] for l in open(os.path.join(HERE, "properties.jsonl")) if l.strip()]
for p in props:
    if p not in CHECKS:
        NOT_APPLICABLE.append({"property_id": p, "reason": NA_REASONS.get(p, "check not built yet in this revision of the framework (planned, see DESIGN.md section 5)")})

manifest = {
    "version": 1,
    "setup_cmd": "./setup.sh",
    "hooks": {
        "guard": "cargo feature verif_hooks",
        "enable": "harness/Cargo.toml depends on /repo with features = [allow_filesystem, collisions, stroke_planning, verif_hooks]; the fuzz crate does the same",
        "baseline_off_cmd": "cd /repo && cargo test --workspace --no-fail-fast --offline",
        "source_commits": HOOK_COMMITS,
        "add_only": True,
    },
    "engines": [
        {"name": "opwv", "path": "harness", "serves_properties": sorted(CHECKS.keys()),
         "kind_free_text": "proptest TestRunner driven from a binary (seeded by VERIF_SEED), independent oracles (OPW link model, arc arithmetic, brute-force triangle distance, document renderers), shrinking to JSON replay files"},
        {"name": "libfuzzer", "path": "fuzz", "serves_properties": FUZZED,
         "kind_free_text": "cargo-fuzz / libFuzzer coverage-guided targets with the semantic oracle inside the target (thorough tier only)"},
    ],
    "checks": [],
    "not_applicable": NOT_APPLICABLE,
    "notes": "All checks: ./check <ID> quick|thorough; replay: ./check <ID> --replay <file>. Exit 0 held / 1 VIOLATION / 2 inconclusive. Known findings: known_findings.json.",
}
for pid in sorted(CHECKS):
    technique, text, note, ref = CHECKS[pid]
    manifest["checks"].append({
        "property_id": pid,
        "quick_cmd": f"./check {pid} quick",
        "thorough_cmd": f"./check {pid} thorough",
        "evidence_file": f"/verif/evidence/{pid}.json",
        "replay_cmd_template": f"./check {pid} --replay {{path}}",
        "engine": "opwv",
        "level_claimed": {"category": "exploration", "text": text, "design_ref": ref},
        "level_note": note,
        "technique": technique,
    })
json.dump(manifest, open(os.path.join(HERE, "MANIFEST.json"), "w"), indent=1)
print("MANIFEST.json:", len(manifest["checks"]), "checks,", len(NOT_APPLICABLE), "not_applicable")
