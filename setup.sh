#!/bin/bash
# Offline build of the harness (MANIFEST.setup_cmd).
set -e
HERE="$(cd "$(dirname "$0")" && pwd)"
export CARGO_NET_OFFLINE=true
cd "$HERE/harness"
[ -f Cargo.lock ] || cp /repo/Cargo.lock Cargo.lock
cargo build --release 2>&1 | tail -3
# libFuzzer targets (thorough tier of C01, C19, C20)
cd "$HERE/fuzz"
[ -f Cargo.lock ] || cp ../harness/Cargo.lock Cargo.lock
cargo +nightly fuzz build -O -s none --fuzz-dir . 2>&1 | tail -2
